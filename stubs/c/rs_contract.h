/* shared by every unit whose wrappers take a ReadStream as void*: C mirror of altintegration::ReadStream and the
 * class-invariant macros. The mirror layout is CHECKED against the C++ class in every harness (check_layout). */
#ifndef RS_CONTRACT_H
#define RS_CONTRACT_H
#include <stddef.h>
#include <stdint.h>
/* CBMC's C++ front end lays classes out without padding; the mirror is packed and the equality of the two layouts is an
 * obligation of every harness (check_layout in wrappers.cpp), not an assumption. */
struct __attribute__((packed)) RS { uint32_t m_version; size_t m_Pos; const uint8_t* m_Buffer; size_t m_Size; };
const size_t RS_LAYOUT[5] = {sizeof(struct RS), offsetof(struct RS, m_version), offsetof(struct RS, m_Pos),
                             offsetof(struct RS, m_Buffer), offsetof(struct RS, m_Size)};
#define R(r) ((struct RS*)(r))
#ifndef MAXBUF
#define MAXBUF 0x7fffffffffffUL   /* is_fresh cannot allocate more than CBMC's max object size */
#endif
#define RS_FRESH(rs)                                                          \
  __CPROVER_requires(__CPROVER_is_fresh(rs, sizeof(struct RS)))               \
  __CPROVER_requires(R(rs)->m_Size <= MAXBUF)                                 \
  __CPROVER_requires(__CPROVER_is_fresh(R(rs)->m_Buffer, R(rs)->m_Size))      \
  __CPROVER_requires(R(rs)->m_Pos <= R(rs)->m_Size)
#define RS_KEEPS(rs)                                                          \
  __CPROVER_ensures(R(rs)->m_Pos <= R(rs)->m_Size)                            \
  __CPROVER_ensures(R(rs)->m_Size == __CPROVER_old(R(rs)->m_Size))            \
  __CPROVER_ensures(R(rs)->m_Buffer == __CPROVER_old(R(rs)->m_Buffer))        \
  __CPROVER_ensures(R(rs)->m_version == __CPROVER_old(R(rs)->m_version))
#define OLDPOS(rs) __CPROVER_old(R(rs)->m_Pos)
#define OLDREM(rs) (__CPROVER_old(R(rs)->m_Size) - __CPROVER_old(R(rs)->m_Pos))
#define RET __CPROVER_return_value

#endif
