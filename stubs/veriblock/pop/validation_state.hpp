// stub of ValidationState: records validity only (reject reasons / debug strings dropped)
#ifndef VSTUB_VALIDATION_STATE_HPP
#define VSTUB_VALIDATION_STATE_HPP
#include <cstdint>
#include "fmt.hpp"
namespace altintegration {
class ValidationState {
 public:
  ValidationState() : m_mode(0), m_invalid_calls(0) {}
  void reset() { m_mode = 0; }
  bool Invalid(const char*) { m_mode = 1; m_invalid_calls++; return false; }
  bool Invalid(const char*, vstub_msg) { m_mode = 1; m_invalid_calls++; return false; }
  bool Invalid(const char*, const char*) { m_mode = 1; m_invalid_calls++; return false; }
  bool Invalid(const char*, vstub_msg, size_t) { m_mode = 1; m_invalid_calls++; return false; }
  bool Invalid(const char*, const char*, size_t) { m_mode = 1; m_invalid_calls++; return false; }
  bool Invalid(const char*, size_t) { m_mode = 1; m_invalid_calls++; return false; }
  bool IsValid() const { return m_mode == 0; }
  bool IsInvalid() const { return m_mode == 1; }
  int toString() const { return 0; }
  int m_mode;
  unsigned m_invalid_calls;
};
}  // namespace altintegration
#endif
