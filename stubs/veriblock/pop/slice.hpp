// stub of Slice<T>: pointer + size (the real header uses alias-declarations CBMC cannot parse)
#ifndef VSTUB_SLICE_HPP
#define VSTUB_SLICE_HPP
#include <cstdint>
#include <vector>
namespace altintegration {
template <class ElementType>
struct Slice {
  typedef ElementType element_type;
  typedef ElementType* pointer;
  typedef ElementType* iterator;
  Slice() : storage_(0), size_(0) {}
  Slice(const Slice& o) : storage_(o.storage_), size_(o.size_) {}
  Slice(ElementType* ptr, size_t size) : storage_(ptr), size_(size) {}
  // the real header has a template <class Container> constructor; CBMC's overload resolution crashes on it,
  // so the two container types that occur in the slices are spelled out
  Slice(const std::vector<uint8_t>& cont) : storage_((ElementType*)cont.data()), size_(cont.size()) {}
  ElementType* data() const { return storage_; }
  size_t size() const { return size_; }
  ElementType& operator[](ptrdiff_t idx) const { return storage_[idx]; }
  ElementType* begin() const { return storage_; }
  ElementType* end() const { return storage_ + size_; }
  std::vector<uint8_t> asVector() const {
    std::vector<uint8_t> r;
    r.reserve(size_);
    for (size_t i = 0; i < size_; i++) r.d_[i] = (uint8_t)storage_[i];
    r.n_ = size_;
    return r;
  }
  std::vector<uint8_t> reverse() const {
    std::vector<uint8_t> r;
    r.reserve(size_);   // (capacity obligation once, then plain stores)
    for (size_t i = 0; i < size_; i++) r.d_[i] = (uint8_t)storage_[size_ - 1 - i];
    r.n_ = size_;
    return r;
  }
  ElementType* storage_;
  size_t size_;
};
}  // namespace altintegration
#endif
