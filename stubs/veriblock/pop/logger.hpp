#include "assert.hpp"
