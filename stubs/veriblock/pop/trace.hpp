#include "assert.hpp"
