// stub of veriblock/pop/assert.hpp for CBMC: an internal assertion of the sliced code is an
// obligation ("never aborts"); std::terminate() does not return, hence the assume after it.
#ifndef VSTUB_ASSERT_HPP
#define VSTUB_ASSERT_HPP
#define VBK_LIKELY(c) (c)
#define VBK_UNLIKELY(c) (c)
#define VBK_DEPRECATED
#define VBK_DEPRECATED_MSG(m)
#define VBK_CHECK_RETURN
#define VBK_ASSERT_MSG(x, ...)                      \
  {                                                 \
    __CPROVER_assert((x), "VBK_ASSERT: " #x);       \
    __CPROVER_assume((x));                          \
  }
#define VBK_ASSERT(x) VBK_ASSERT_MSG(x, " ");
// the library is built without NDEBUG in RelWithDebInfo? no: NDEBUG is defined there; keep the
// stronger reading (debug assertions are obligations too).
#define VBK_ASSERT_MSG_DEBUG(x, ...) VBK_ASSERT_MSG(x, __VA_ARGS__)
#define VBK_ASSERT_DEBUG(x) VBK_ASSERT(x)
#define VBK_LOG_DEBUG(...)
#define VBK_LOG_INFO(...)
#define VBK_LOG_WARN(...)
#define VBK_LOG_ERROR(...)
#define VBK_LOG_CRITICAL(...)
#define VBK_TRACE_ZONE_SCOPED
#define VBK_TRACE_ZONE_SCOPED_N(n)
#define VBK_TRACE_LOCKABLE_BASE(t) t
#define VBK_TRACE_LOCKABLE(t, n) t n
#endif
