// stub of Blob<N>: a fixed array of N bytes, zero-initialised (the real header uses alias-declarations and
// std::array, which CBMC's C++ front end cannot parse). Only what the sliced code touches is modelled.
#ifndef VSTUB_BLOB_HPP
#define VSTUB_BLOB_HPP
#include <cstdint>
#include <cstring>
#include <vector>
#include "assert.hpp"
#include "slice.hpp"
namespace altintegration {
template <size_t N>
struct Blob {
  typedef uint8_t value_type;
  Blob() { for (size_t i = 0; i < N; i++) data_[i] = 0; }
  Blob(const Blob<N>& o) { for (size_t i = 0; i < N; i++) data_[i] = o.data_[i]; }
  Blob(Slice<const uint8_t> s) {
    for (size_t i = 0; i < N; i++) data_[i] = 0;
    assign(s);
  }
  Blob(const std::vector<uint8_t>& v) {
    for (size_t i = 0; i < N; i++) data_[i] = 0;
    assign(Slice<const uint8_t>(v.data(), v.size()));
  }
  Blob<N>& operator=(const Blob<N>& o) {
    for (size_t i = 0; i < N; i++) data_[i] = o.data_[i];
    return *this;
  }
  Blob<N>& operator=(const Slice<const uint8_t> s) { assign(s); return *this; }
  Blob<N>& operator=(const std::vector<uint8_t>& vec) { *this = Blob<N>(vec); return *this; }
  size_t size() const { return N; }  // (static in the real header; static members of class templates are not instantiated by the front end)
  uint8_t* data() { return data_; }
  const uint8_t* data() const { return data_; }
  uint8_t* begin() { return data_; }
  uint8_t* end() { return data_ + N; }
  const uint8_t* begin() const { return data_; }
  const uint8_t* end() const { return data_ + N; }
  void fill(uint8_t v) { for (size_t i = 0; i < N; i++) data_[i] = v; }
  void setNull() { fill(0); }
  const uint8_t& operator[](size_t index) const { VBK_ASSERT(index < N); return data_[index]; }
  Blob<N> reverse() const {
    Blob<N> r;
    for (size_t i = 0; i < N; i++) r.data_[i] = data_[N - 1 - i];
    return r;
  }
  std::vector<uint8_t> asVector() const { return std::vector<uint8_t>(data_, data_ + N); }
  void resize(size_t size) { VBK_ASSERT(size == N); }
  // the real assign() throws std::domain_error on oversize input: an obligation here (must be unreachable)
  void assign(Slice<const uint8_t> s) {
    __CPROVER_assert(s.size() <= N, "THROW: Blob::assign oversize input (std::domain_error)");
    __CPROVER_assume(s.size() <= N);
    for (size_t i = 0; i < N; i++) if (i < s.size()) data_[i] = s[i];   // (loop bound is the constant N: no unwinding beyond N)
  }
  bool operator==(const Blob<N>& b) const {
    for (size_t i = 0; i < N; i++) if (data_[i] != b.data_[i]) return false;
    return true;
  }
  bool operator!=(const Blob<N>& b) const { return !(*this == b); }
  uint8_t data_[N];
};
}  // namespace altintegration
#endif
