// stub
