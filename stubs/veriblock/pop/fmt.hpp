// stub: diagnostic strings are not part of any property; format(...) yields an opaque message object
#ifndef VSTUB_FMT_HPP
#define VSTUB_FMT_HPP
struct vstub_msg {};
#define format(...) (::vstub_msg())
#endif
