#include <cstdint>
