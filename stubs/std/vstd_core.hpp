// Minimal std subset for CBMC's C++ front end (assumed contracts on dependencies; listed in trusted_base).
#ifndef VSTD_CORE_HPP
#define VSTD_CORE_HPP
#include <cstdint>
extern "C" void* malloc(size_t);
extern "C" void* memcpy(void*, const void*, size_t);
extern "C" void* memset(void*, int, size_t);
extern "C" int memcmp(const void*, const void*, size_t);
namespace std {
template <bool B, class T = int> struct enable_if {};
template <class T> struct enable_if<true, T> { typedef T type; };
template <class T> struct is_integral { static const bool value = true; };
template <class T> struct remove_cv { typedef T type; };
template <class T> struct remove_const { typedef T type; };
template <class T> struct remove_const<const T> { typedef T type; };

template <class In, class Out> Out copy(In first, In last, Out out) {
  while (first != last) { *out = *first; ++out; ++first; }
  return out;
}
template <class T, class U> void fill(T* first, T* last, U v) {
  while (first != last) { *first = (T)v; ++first; }
}
template <class T, class U> T* find(T* first, T* last, const U& v) {
  while (first != last) { if (*first == v) return first; ++first; }
  return last;
}
template <class T> T min(T a, T b) { return b < a ? b : a; }
template <class T> T max(T a, T b) { return a < b ? b : a; }
template <class T> void swap(T& a, T& b) { T t = a; a = b; b = t; }
template <class It> void reverse(It first, It last) {
  while (first != last && first != --last) { swap(*first, *last); ++first; }
}
// std::sort on raw pointers: insertion sort (any correct sort satisfies the standard's contract: a sorted permutation)
template <class T> void sort(T* first, T* last) {
  for (T* i = first; i != last; ++i) {
    T* j = i;
    while (j != first && *j < *(j - 1)) { T t = *j; *j = *(j - 1); *(j - 1) = t; --j; }
  }
}
// std::sort with a comparison object (insertion sort; called as cmp.operator()(a, b))
template <class T, class C> void sort(T* first, T* last, C cmp) {
  for (T* i = first; i != last; ++i) {
    T* j = i;
    while (j != first && cmp.operator()(*j, *(j - 1))) { T t = *j; *j = *(j - 1); *(j - 1) = t; --j; }
  }
}
}  // namespace std
#endif
