#include <cstdint>
