// C02: CommandGroup::execute / unExecute sliced from command_group.hpp. Commands are abstract: Execute(k) returns an arbitrary
// verdict and appends +(k+1) to a ghost trace, UnExecute(k) appends -(k+1). std::vector<shared_ptr<Command>> and its
// (reverse) iterators are models over a fixed array of Command*.
#include <cstdint>
#include <veriblock/pop/assert.hpp>
#include <veriblock/pop/validation_state.hpp>
#ifndef NMAX
#define NMAX 4
#endif
extern "C" { extern int g_trace[2 * NMAX + 2]; extern int g_tn; }
namespace altintegration {
struct Command {
  int k;
  bool ok;
  bool Execute(ValidationState& state) { g_trace[g_tn++] = k + 1; if (!ok) return state.Invalid("abstract-command-failed"); return true; }
  void UnExecute() { g_trace[g_tn++] = -(k + 1); }
};
typedef Command* CommandPtr;
typedef CommandPtr* cmd_it_t;   // (const_iterator in the real code; the front end mishandles pointer-to-const-pointer typedefs)
struct cmd_rit_t {   // std::reverse_iterator<const_iterator>: *r is the element before base
  cmd_it_t base;
  cmd_rit_t() : base(0) {}
  explicit cmd_rit_t(cmd_it_t b) : base(b) {}
  cmd_rit_t& operator++() { --base; return *this; }
  bool operator!=(const cmd_rit_t& o) const { return base != o.base; }
  CommandPtr operator*() const { return *(base - 1); }
};
struct storage_t {
  CommandPtr d_[NMAX];
  size_t n_;
  cmd_it_t begin() const { return const_cast<storage_t*>(this)->d_; }
  cmd_it_t end() const { return const_cast<storage_t*>(this)->d_ + n_; }
  cmd_rit_t rbegin() const { return cmd_rit_t(end()); }
  cmd_rit_t rend() const { return cmd_rit_t(begin()); }
};
struct CommandGroup {
  storage_t commands;
  // command_group.hpp: begin/end/rbegin/rend forward to the container
  cmd_it_t begin() const { return commands.begin(); }
  cmd_it_t end() const { return commands.end(); }
  cmd_rit_t rbegin() const { return commands.rbegin(); }
  cmd_rit_t rend() const { return commands.rend(); }
#include "slices/execute.inc"
#include "slices/unExecute.inc"
};
}  // namespace altintegration
