/* C02: atomicity of one command group. Ghost trace: Execute of command k appends +(k+1), UnExecute appends -(k+1).
 * execute(): let f = index of the first command whose Execute fails (f = n if none).
 *   f == n: returns true,  trace = +1 .. +n                      (all executed in order, nothing reverted)
 *   f <  n: returns false, trace = +1 .. +(f+1), -f .. -1        (exactly the executed prefix reverted in reverse order; the failed
 *                                                                  command itself is not un-executed; nothing after f is touched)
 * unExecute(): trace = -n .. -1.      p is a ghost position: "for every position of the trace". */
#include <stddef.h>
#include <stdint.h>
#define RET __CPROVER_return_value
#define NMAX 4
#define TL (2 * NMAX + 2)
extern int g_trace[TL];
extern int g_tn;
#define FF(ok, n) ((n) > 0 && !(ok)[0] ? 0 : (n) > 1 && !(ok)[1] ? 1 : (n) > 2 && !(ok)[2] ? 2 : (n) > 3 && !(ok)[3] ? 3 : (int)(n))
#define EXPECT(ok, n, p) ((int)(p) <= FF(ok, n) && (p) < (n) ? (int)(p) + 1 : -(2 * FF(ok, n) + 1 - (int)(p)))
#define EXPLEN(ok, n) (FF(ok, n) == (int)(n) ? (int)(n) : 2 * FF(ok, n) + 1)
int w_cg_execute_c(size_t n, const uint8_t* ok, int* trace, int* tn, size_t p)
__CPROVER_requires(p < TL && n <= NMAX && __CPROVER_is_fresh(ok, NMAX) && __CPROVER_is_fresh(trace, TL * sizeof(int)) && __CPROVER_is_fresh(tn, sizeof(int)))
__CPROVER_assigns(__CPROVER_object_whole(trace), *tn, __CPROVER_object_whole(g_trace), g_tn)
__CPROVER_ensures((RET != 0) == (FF(ok, n) == (int)n))
__CPROVER_ensures(*tn == EXPLEN(ok, n))
__CPROVER_ensures((int)p < *tn ==> trace[p] == EXPECT(ok, n, p));

void w_cg_unExecute_c(size_t n, const uint8_t* ok, int* trace, int* tn, size_t p)
__CPROVER_requires(p < TL && n <= NMAX && __CPROVER_is_fresh(ok, NMAX) && __CPROVER_is_fresh(trace, TL * sizeof(int)) && __CPROVER_is_fresh(tn, sizeof(int)))
__CPROVER_assigns(__CPROVER_object_whole(trace), *tn, __CPROVER_object_whole(g_trace), g_tn)
__CPROVER_ensures(*tn == (int)n)
__CPROVER_ensures(p < n ==> trace[p] == -((int)n - (int)p));
