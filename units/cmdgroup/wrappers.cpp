#include "prelude.hpp"
using namespace altintegration;
#define REACH __CPROVER_assert(0, "REACH: harness end is reachable (expected to fail)")
extern "C" {
int g_trace[2 * NMAX + 2];
int g_tn;
size_t nondet_size_t();
void* nondet_ptr();
static void mk(CommandGroup& g, Command* cmds, size_t n, const uint8_t* ok) {
  for (size_t i = 0; i < NMAX; i++) { cmds[i].k = (int)i; cmds[i].ok = ok[i] != 0; g.commands.d_[i] = &cmds[i]; }
  g.commands.n_ = n;
  g_tn = 0;
  for (int i = 0; i < 2 * NMAX + 2; i++) g_trace[i] = 0;
}
int w_cg_execute(size_t n, const uint8_t* ok, int* trace, int* tn, size_t p) {
  CommandGroup g;
  Command cmds[NMAX];
  mk(g, cmds, n, ok);
  ValidationState st;
  bool r = g.execute(st);
  __CPROVER_assert(r == st.IsValid(), "result false <=> ValidationState invalid");
  for (int i = 0; i < 2 * NMAX + 2; i++) trace[i] = g_trace[i];
  *tn = g_tn;
  return r;
}
void h_cg_execute() { w_cg_execute(nondet_size_t(), (const uint8_t*)nondet_ptr(), (int*)nondet_ptr(), (int*)nondet_ptr(), nondet_size_t()); REACH; }
void w_cg_unExecute(size_t n, const uint8_t* ok, int* trace, int* tn, size_t p) {
  CommandGroup g;
  Command cmds[NMAX];
  mk(g, cmds, n, ok);
  g.unExecute();
  for (int i = 0; i < 2 * NMAX + 2; i++) trace[i] = g_trace[i];
  *tn = g_tn;
}
void h_cg_unExecute() { w_cg_unExecute(nondet_size_t(), (const uint8_t*)nondet_ptr(), (int*)nondet_ptr(), (int*)nondet_ptr(), nondet_size_t()); REACH; }
}
