// C03-U1: the whole real file src/pop/keystone_util.cpp (copied unmodified into the shadow tree)
#include <cstdint>
#include "src/pop/keystone_util.cpp"
using namespace altintegration;
extern "C" {
int w_isKeystone(int h, unsigned ki) { return isKeystone(h, ki) ? 1 : 0; }
int w_highestKeystoneAtOrBefore(int h, unsigned ki) { return highestKeystoneAtOrBefore(h, ki); }
int w_firstKeystoneAfter(int h, unsigned ki) { return firstKeystoneAfter(h, ki); }
int w_highestBlockWhichConnectsKeystoneToPrevious(int h, unsigned ki) {
  return highestBlockWhichConnectsKeystoneToPrevious(h, ki);
}
int w_isCrossedKeystoneBoundary(int b, int t, unsigned ki) { return isCrossedKeystoneBoundary(b, t, ki) ? 1 : 0; }
int w_areOnSameKeystoneInterval(int a, int b, unsigned ki) { return areOnSameKeystoneInterval(a, b, ki) ? 1 : 0; }
int w_blockHeightToKeystoneNumber(int h, unsigned ki) { return blockHeightToKeystoneNumber(h, ki); }
int w_getPreviousKeystoneHeight(int h, unsigned ki, unsigned n) { return getPreviousKeystoneHeight(h, ki, n); }

int nondet_int();
unsigned nondet_unsigned();
#define REACH __CPROVER_assert(0, "REACH: harness end is reachable (expected to fail)")
void h_isKeystone() { w_isKeystone(nondet_int(), nondet_unsigned()); REACH; }
void h_highestKeystoneAtOrBefore() { w_highestKeystoneAtOrBefore(nondet_int(), nondet_unsigned()); REACH; }
void h_firstKeystoneAfter() { w_firstKeystoneAfter(nondet_int(), nondet_unsigned()); REACH; }
void h_highestBlockWhichConnectsKeystoneToPrevious() {
  w_highestBlockWhichConnectsKeystoneToPrevious(nondet_int(), nondet_unsigned()); REACH;
}
void h_isCrossedKeystoneBoundary() { w_isCrossedKeystoneBoundary(nondet_int(), nondet_int(), nondet_unsigned()); REACH; }
void h_areOnSameKeystoneInterval() { w_areOnSameKeystoneInterval(nondet_int(), nondet_int(), nondet_unsigned()); REACH; }
void h_blockHeightToKeystoneNumber() { w_blockHeightToKeystoneNumber(nondet_int(), nondet_unsigned()); REACH; }
void h_getPreviousKeystoneHeight() { w_getPreviousKeystoneHeight(nondet_int(), nondet_unsigned(), nondet_unsigned()); REACH; }
}
