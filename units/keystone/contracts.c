/* Contracts for src/pop/keystone_util.cpp.  KI is the configured keystone interval (a -D of the
 * harness run): symbolic divisors are undecidable in budget on every installed back end.
 * G(x) = greatest multiple of KI that is <= x (x >= 0), written division-free. */
#define G(x) ((x) - (x) % KI)
#define IMAX 2147483647

int w_isKeystone_c(int h, unsigned ki)
__CPROVER_requires(h >= 0 && ki == KI)
__CPROVER_ensures((__CPROVER_return_value == 1) == (h % KI == 0))
__CPROVER_ensures(__CPROVER_return_value == 0 || __CPROVER_return_value == 1)
__CPROVER_assigns();

int w_highestKeystoneAtOrBefore_c(int h, unsigned ki)
__CPROVER_requires(h >= 0 && ki == KI)
__CPROVER_ensures(__CPROVER_return_value % KI == 0)
__CPROVER_ensures(__CPROVER_return_value <= h && h - __CPROVER_return_value < KI)
__CPROVER_assigns();

int w_firstKeystoneAfter_c(int h, unsigned ki)
__CPROVER_requires(h >= 0 && h <= IMAX - KI && ki == KI)
__CPROVER_ensures(__CPROVER_return_value % KI == 0)
__CPROVER_ensures(__CPROVER_return_value > h && __CPROVER_return_value - h <= KI)
__CPROVER_assigns();

int w_highestBlockWhichConnectsKeystoneToPrevious_c(int h, unsigned ki)
__CPROVER_requires(h >= 0 && h % KI == 0 && h <= IMAX - KI - 1 && ki == KI)
__CPROVER_ensures(__CPROVER_return_value == h + KI + 1)
__CPROVER_assigns();

/* exists keystone k with b < k <= t  <=>  the highest keystone at or below t is above b */
int w_isCrossedKeystoneBoundary_c(int b, int t, unsigned ki)
__CPROVER_requires(b >= 0 && t >= 0 && ki == KI)
__CPROVER_ensures((__CPROVER_return_value == 1) == (G(t) > b))
__CPROVER_ensures(__CPROVER_return_value == 0 || __CPROVER_return_value == 1)
__CPROVER_assigns();

int w_areOnSameKeystoneInterval_c(int a, int b, unsigned ki)
__CPROVER_requires(a >= 0 && b >= 0 && ki == KI)
__CPROVER_ensures((__CPROVER_return_value == 1) == (G(a) == G(b)))
__CPROVER_assigns();

int w_blockHeightToKeystoneNumber_c(int h, unsigned ki)
__CPROVER_requires(h >= 0 && ki == KI)
__CPROVER_ensures(__CPROVER_return_value >= 0 && (long)__CPROVER_return_value * KI == (long)G(h))
__CPROVER_assigns();

/* n-th previous keystone of a block at height h: greatest multiple of KI <= h-2, minus n*KI, floored at 0 */
int w_getPreviousKeystoneHeight_c(int h, unsigned ki, unsigned n)
__CPROVER_requires(h >= 0 && ki == KI && n <= 1024)
__CPROVER_ensures(h < 2 ==> __CPROVER_return_value == 0)
__CPROVER_ensures(h >= 2 ==> ((long)G(h - 2) - (long)n * KI <= 0
                                ? __CPROVER_return_value == 0
                                : (long)__CPROVER_return_value == (long)G(h - 2) - (long)n * KI))
__CPROVER_assigns();
