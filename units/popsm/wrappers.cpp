#include "prelude.hpp"
using namespace altintegration;
#define REACH __CPROVER_assert(0, "REACH: harness end is reachable (expected to fail)")
extern "C" {
int g_tr[TRMAX]; int g_tn;
int nondet_int();
void* nondet_ptr();
// blocks: 0 fork (height 10), 1 = F1, 2 = F2 (first branch), 3 = T1, 4 = T2 (second branch).  from in {0,1,2}, to in {0..4}.
// ok[i]: block i applies; valid[i]: block i is not marked invalid.  out = {state valid, trace length, trace[0..TRMAX)}
int w_popsm(int from, int to, const int32_t* ok, const int32_t* valid, int32_t* out) {
  static Idx b[NBLK];
  const int par[NBLK] = {-1, 0, 1, 0, 3};
  for (int i = 0; i < NBLK; i++) { b[i].id_ = i; b[i].pprev = par[i] < 0 ? (Idx*)0 : &b[par[i]]; b[i].height = par[i] < 0 ? 10 : b[par[i]].height + 1; b[i].ok_ = ok[i] != 0; b[i].valid_ = valid[i] != 0; }
  g_tn = 0;
  for (int i = 0; i < TRMAX; i++) g_tr[i] = 0;
  PopStateMachine sm;
  ValidationState st;
  bool r = false;
  for (int f = 0; f < 3; f++) for (int t = 0; t < NBLK; t++) if (f == from && t == to) r = sm.setState(b[f], b[t], st);
  out[0] = st.IsValid() ? 1 : 0; out[1] = g_tn;
  for (int i = 0; i < TRMAX; i++) out[2 + i] = g_tr[i];
  return r ? 1 : 0;
}
void h_popsm() { w_popsm(nondet_int(), nondet_int(), (const int32_t*)nondet_ptr(), (const int32_t*)nondet_ptr(), (int32_t*)nondet_ptr()); REACH; }
}
