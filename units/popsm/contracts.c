/* C02: "setState(target) either succeeds and the target is the active tip, or fails and every observable ... is exactly what it was";
 * C20: "payload effects being applied on top of the parent and reverted in reverse order".
 * Blocks: 0 fork, 1-2 first branch (F1, F2), 3-4 second branch (T1, T2).  Trace: +k = block k-1 applied, -k = block k-1 unapplied. */
#include <stddef.h>
#include <stdint.h>
#define RET __CPROVER_return_value
#define TRMAX 10
extern int g_tr[TRMAX]; extern int g_tn;
#define T(i) out[2 + (i)]
#define LEN out[1]
/* depth of a block above block 0 and its branch (0 = first, 1 = second) */
#define DEPTH(x) ((x) == 0 ? 0 : ((x) == 1 || (x) == 3) ? 1 : 2)
#define BR(x) ((x) >= 3 ? 1 : 0)
/* depth of the fork point of from and to */
#define FD ((to == 0 || BR(to) == 1) ? 0 : (DEPTH(from) < DEPTH(to) ? DEPTH(from) : DEPTH(to)))
/* number of blocks to unapply / to apply */
#define NU (DEPTH(from) - FD)
#define NA (DEPTH(to) - FD)
/* the k-th block (k = 1..) above the fork point on the way to `to` / to `from` */
#define TOBLK(k) (BR(to) == 1 ? 2 + FD + (k) : FD + (k))
#define FROMBLK(k) (FD + (k))
#define OKB(x) (ok[(x)] != 0)
/* index (1-based) of the first block on the way to `to` that does not apply, NA + 1 if all apply */
#define FAILAT (NA >= 1 && !OKB(TOBLK(1)) ? 1 : NA >= 2 && !OKB(TOBLK(2)) ? 2 : NA + 1)
#define TOVALID (valid[to] != 0)
#define SUCCESS (from == to || (NA == 0) || (TOVALID && FAILAT == NA + 1))
int w_popsm_c(int from, int to, const int32_t* ok, const int32_t* valid, int32_t* out)
__CPROVER_requires(from >= 0 && from <= 2 && to >= 0 && to <= 4 && __CPROVER_is_fresh(ok, 5 * 4) && __CPROVER_is_fresh(valid, 5 * 4) && __CPROVER_is_fresh(out, (2 + TRMAX) * 4))
/* the blocks up to `from` are applied now, so they apply (re-applying them is asserted to succeed) and are not marked invalid */
__CPROVER_requires(ok[1] != 0 && ok[2] != 0 && valid[0] != 0 && valid[1] != 0 && valid[2] != 0)
__CPROVER_assigns(__CPROVER_object_whole(out), __CPROVER_object_whole(g_tr), g_tn)
__CPROVER_ensures(RET == (SUCCESS ? 1 : 0))
/* success: unapply from..fork+1 top-down, apply fork+1..to bottom-up */
__CPROVER_ensures(!SUCCESS || from == to || (LEN == NU + NA && (NU < 1 || T(0) == -(FROMBLK(NU) + 1)) && (NU < 2 || T(1) == -(FROMBLK(NU - 1) + 1)) &&
    (NA < 1 || T(NU) == TOBLK(1) + 1) && (NA < 2 || T(NU + 1) == TOBLK(2) + 1)))
__CPROVER_ensures(from != to || LEN == 0)
/* failure: unapply as above, apply the blocks before the failing one, unapply them top-down, re-apply the original branch bottom-up:
 * afterwards exactly the blocks that were applied before are applied again */
#define AP (TOVALID ? FAILAT - 1 : 0)
__CPROVER_ensures(SUCCESS || (LEN == NU + 2 * AP + NU && (NU < 1 || T(0) == -(FROMBLK(NU) + 1)) && (NU < 2 || T(1) == -(FROMBLK(NU - 1) + 1)) &&
    (AP < 1 || (T(NU) == TOBLK(1) + 1 && T(NU + 2 * AP - 1) == -(TOBLK(1) + 1))) &&
    (NU < 1 || T(NU + 2 * AP) == FROMBLK(1) + 1) && (NU < 2 || T(NU + 2 * AP + 1) == FROMBLK(2) + 1)));
