// C02 / C20: PopStateMachine::setState / apply / unapply / unapplyWhile (include/veriblock/pop/blockchain/pop/pop_state_machine.hpp) and
// getForkBlock (block_index.hpp) with a ghost trace: applyBlock(x) appends +(x+1) when it succeeds (its verdict is a flag of the block;
// the function's tail is proved in unit applydec), unapplyBlock(x) appends -(x+1).  "atomic: either changes the state to 'to' or leaves
// it unchanged"; "payload effects applied on top of the parent and reverted in reverse order".
#include <cstdint>
#include <algorithm>
#include <veriblock/pop/assert.hpp>
#include <veriblock/pop/fmt.hpp>
#include <veriblock/pop/validation_state.hpp>
#define NBLK 5
#define TRMAX 10
extern "C" { extern int g_tr[TRMAX]; extern int g_tn; }
inline void tr_push(int v) { if (g_tn < TRMAX) g_tr[g_tn] = v; g_tn++; }
namespace altintegration {
struct Idx {
  int id_; Idx* pprev; int32_t height; bool valid_, ok_;
  int32_t getHeight() const { return height; }
  bool isValid() const { return valid_; }
  Idx* getPrev() const { return pprev; }
  // block_index.hpp getAncestor (unit blockindex): the block at that height on this block's chain
  Idx* getAncestor(int32_t h) const { if ((h) < 0 || (h) > height) return (Idx*)0; Idx* i = const_cast<Idx*>(this); while (i != 0 && i->height > h) i = i->pprev; return i; }
};
typedef Idx index_t;
// Chain<index_t>(startHeight, tip) (proved in unit chain): the ancestors of tip from startHeight upwards, one per height
struct ChainModel {
  Idx* d_[NBLK]; int n_;
  ChainModel(int32_t start, Idx* tip) : n_(0) {
    int len = tip->height - start + 1;
    if (len < 0) len = 0;
    n_ = len;
    Idx* p = tip;
    for (int i = NBLK - 1; i >= 0; i--) if (i < len && p != 0) { d_[i] = p; p = p->pprev; }
  }
  Idx* first() const { return n_ == 0 ? (Idx*)0 : const_cast<ChainModel*>(this)->d_[0]; }
  size_t blocksCount() const { return (size_t)n_; }
  size_t size() const { return (size_t)n_; }
  Idx* at_(size_t i) const { return const_cast<ChainModel*>(this)->d_[i]; }
};
#include "slices/getForkBlock.inc"
struct lam_true { char pad_; bool operator()(index_t&) const { return true; } };   // [](index_t&) -> bool { return true; }
struct PopStateMachine {
  bool applyBlock(index_t& index, ValidationState& state) { if (!index.ok_) return state.Invalid("abstract-block-does-not-apply"); tr_push(index.id_ + 1); return true; }
  void unapplyBlock(index_t& index) { tr_push(-(index.id_ + 1)); }
#include "slices/unapplyWhile.inc"
#include "slices/unapply.inc"
#include "slices/apply.inc"
#include "slices/setState.inc"
};
}  // namespace altintegration
