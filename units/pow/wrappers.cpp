#include "prelude.hpp"
#define REACH __CPROVER_assert(0, "REACH: harness end is reachable (expected to fail)")
extern "C" {
unsigned nondet_unsigned();
void* nondet_ptr();
// hash: the block hash as stored (big-endian display order: byte 31 is the least significant); limit: powLimit as a Blob<32> in number order
int w_pow_btc(const uint8_t* hash, uint32_t bits, const uint8_t* limit) {
  BtcBlock b;
  BtcChainParams p;
  for (int i = 0; i < 32; i++) { b.hash_.data_[i] = hash[i]; p.limit_.data_[i] = limit[i]; }
  b.bits_ = bits;
  return checkProofOfWork(b, p);
}
void h_pow_btc() { w_pow_btc((const uint8_t*)nondet_ptr(), nondet_unsigned(), (const uint8_t*)nondet_ptr()); REACH; }
}
