#include "prelude.hpp"
#define REACH __CPROVER_assert(0, "REACH: harness end is reachable (expected to fail)")
extern "C" {
uint8_t g_quot[32];
uint8_t g_max[32];
unsigned nondet_unsigned();
void* nondet_ptr();
// hash: the block hash as stored (big-endian display order: byte 31 is the least significant); limit: powLimit as a Blob<32> in number order
int w_pow_btc(const uint8_t* hash, uint32_t bits, const uint8_t* limit) {
  BtcBlock b;
  BtcChainParams p;
  for (int i = 0; i < 32; i++) { b.hash_.data_[i] = hash[i]; p.limit_.data_[i] = limit[i]; }
  b.bits_ = bits;
  return checkProofOfWork(b, p);
}
void h_pow_btc() { w_pow_btc((const uint8_t*)nondet_ptr(), nondet_unsigned(), (const uint8_t*)nondet_ptr()); REACH; }

// hash: 24-byte VBK block hash as stored; mindiff: minimum difficulty in number order; quot: the (abstract) quotient max / target
int w_pow_vbk(const uint8_t* hash, uint32_t bits, const uint8_t* mindiff, const uint8_t* quot) {
  VbkBlock b;
  VbkChainParams p;
  for (int i = 0; i < 24; i++) b.hash_.data_[i] = hash[i];
  for (int i = 0; i < 32; i++) { p.mindiff_.data_[i] = mindiff[i]; g_quot[i] = quot[i]; g_max[i] = 0xff; }
  b.bits_ = (int32_t)bits;
  return checkProofOfWork(b, p);
}
void h_pow_vbk() { w_pow_vbk((const uint8_t*)nondet_ptr(), nondet_unsigned(), (const uint8_t*)nondet_ptr(), (const uint8_t*)nondet_ptr()); REACH; }
}
