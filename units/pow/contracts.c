/* C05 "each (header) meets its proof of work" / C15 "meets its proof of work": the gate of checkProofOfWork(BtcBlock).
 * accepted  <=>  the compact target is not negative, does not overflow, is non-zero, does not exceed powLimit, and the block hash
 * (read as a little-endian 256-bit number, i.e. the stored bytes reversed) does not exceed the target.
 * The target is mantissa * 256^(size-3) (Bitcoin's definition; spec macros shared with unit arith), compared on 64-bit words. */
#include "../arith/spec.h"
/* word j of the decoded target, built from the spec's bytes */
#define TB(b, k) ((uint64_t)FB_BYTE(b, k))
#define TW(b, j) (TB(b, 8 * (j)) | TB(b, 8 * (j) + 1) << 8 | TB(b, 8 * (j) + 2) << 16 | TB(b, 8 * (j) + 3) << 24 | TB(b, 8 * (j) + 4) << 32 | TB(b, 8 * (j) + 5) << 40 | \
                  TB(b, 8 * (j) + 6) << 48 | TB(b, 8 * (j) + 7) << 56)
/* word j of the hash as a number: number byte k = hash[31-k] */
#define HB(h, k) ((uint64_t)(h)[31 - (k)])
#define HW(h, j) (HB(h, 8 * (j)) | HB(h, 8 * (j) + 1) << 8 | HB(h, 8 * (j) + 2) << 16 | HB(h, 8 * (j) + 3) << 24 | HB(h, 8 * (j) + 4) << 32 | HB(h, 8 * (j) + 5) << 40 | \
                  HB(h, 8 * (j) + 6) << 48 | HB(h, 8 * (j) + 7) << 56)
#define LEX4(a3, a2, a1, a0, b3, b2, b1, b0) ((a3) != (b3) ? ((a3) < (b3) ? -1 : 1) : (a2) != (b2) ? ((a2) < (b2) ? -1 : 1) : (a1) != (b1) ? ((a1) < (b1) ? -1 : 1) : (a0) != (b0) ? ((a0) < (b0) ? -1 : 1) : 0)
#define T_VS_LIMIT(b, l) LEX4(TW(b, 3), TW(b, 2), TW(b, 1), TW(b, 0), W(l, 3), W(l, 2), W(l, 1), W(l, 0))
#define H_VS_T(h, b) LEX4(HW(h, 3), HW(h, 2), HW(h, 1), HW(h, 0), TW(b, 3), TW(b, 2), TW(b, 1), TW(b, 0))
#define NEG(b) (FB_WORD(b) != 0 && ((b)&0x00800000u) != 0)
#define OVF(b) (FB_WORD(b) != 0 && BYTELEN24(FB_WORD(b)) + FB_SIZE(b) > 35)
#define TZERO(b) (TW(b, 0) == 0 && TW(b, 1) == 0 && TW(b, 2) == 0 && TW(b, 3) == 0)
int w_pow_btc_c(const uint8_t* hash, uint32_t bits, const uint8_t* limit)
__CPROVER_requires(FRESH32(hash) && FRESH32(limit))
__CPROVER_assigns()
__CPROVER_ensures((RET != 0) == (!NEG(bits) && !OVF(bits) && !TZERO(bits) && T_VS_LIMIT(bits, limit) <= 0 && H_VS_T(hash, bits) <= 0));

/* VBK: accepted <=> the compact difficulty is not negative / overflowing / zero, is at least the minimum difficulty, and the block hash
 * (24 stored bytes reversed, zero-extended to 256 bits) does not exceed the target = MAX_DIFFICULTY / difficulty (quotient abstracted) */
extern uint8_t g_quot[32];
extern uint8_t g_max[32];
#define HB24(h, k) ((k) < 24 ? (uint64_t)(h)[23 - (k)] : (uint64_t)0)
#define HW24(h, j) (HB24(h, 8 * (j)) | HB24(h, 8 * (j) + 1) << 8 | HB24(h, 8 * (j) + 2) << 16 | HB24(h, 8 * (j) + 3) << 24 | HB24(h, 8 * (j) + 4) << 32 | HB24(h, 8 * (j) + 5) << 40 | \
                    HB24(h, 8 * (j) + 6) << 48 | HB24(h, 8 * (j) + 7) << 56)
#define T_VS_MIN(b, l) LEX4(TW(b, 3), TW(b, 2), TW(b, 1), TW(b, 0), W(l, 3), W(l, 2), W(l, 1), W(l, 0))
#define H24_VS_Q(h, q) LEX4(HW24(h, 3), HW24(h, 2), HW24(h, 1), HW24(h, 0), W(q, 3), W(q, 2), W(q, 1), W(q, 0))
int w_pow_vbk_c(const uint8_t* hash, uint32_t bits, const uint8_t* mindiff, const uint8_t* quot)
__CPROVER_requires(__CPROVER_is_fresh(hash, 24) && FRESH32(mindiff) && FRESH32(quot))
__CPROVER_assigns(__CPROVER_object_whole(g_quot), __CPROVER_object_whole(g_max))
__CPROVER_ensures((RET != 0) == (!NEG(bits) && !OVF(bits) && !TZERO(bits) && T_VS_MIN(bits, mindiff) >= 0 && H24_VS_Q(hash, quot) <= 0));
