// C05-U3 / C15: checkProofOfWork(BtcBlock) over the real ArithUint256 (same slices as unit arith; the two member templates are
// instantiated for Blob<32>/Blob<24> instead of being deleted).
#include <cstdint>
#include <cstring>
#include <limits>
#include <string>
#include <vector>
#include <veriblock/pop/consts.hpp>
#include <veriblock/pop/assert.hpp>
#include <veriblock/pop/blob.hpp>
#define VERIF_THROW(what) { __CPROVER_assert(0, "THROW: " what " must be unreachable under the stated precondition"); __CPROVER_assume(0); }
namespace altintegration {
inline void vstd_force_blob32_() { Blob<32> a; Blob<32> b(a); b = a; a.reverse(); a.data(); a.size(); Blob<24> c; Blob<24> d(c); d = c; c.reverse(); c.data(); c.size(); }
#include "slices/class_ArithUint256.inc"
;
#include "slices/friends.inc"
}
using namespace altintegration;
#include "slices/fromBits.inc"
#include "slices/compareTo.inc"
#include "slices/shl.inc"
#include "slices/shr.inc"
#include "slices/mul32.inc"
#include "slices/mul.inc"
#include "slices/div.inc"
#include "slices/bits.inc"
#include "slices/toBits.inc"
#include "slices/getLow64.inc"
namespace altintegration {
typedef Blob<32> uint256;
struct BtcBlock {
  uint256 hash_;
  uint32_t bits_;
  uint256 getHash() const { return hash_; }
  uint32_t getDifficulty() const { return bits_; }
};
struct BtcChainParams {
  uint256 limit_;
  uint256 getPowLimit() const { return limit_; }
};
#include "slices/checkProofOfWork_btc.inc"
typedef Blob<24> uint192;
struct VbkBlock {
  uint192 hash_;
  int32_t bits_;
  uint192 getHash() const { return hash_; }
  int32_t getDifficulty() const { return bits_; }
};
struct VbkChainParams {
  uint256 mindiff_;
  uint256 getMinimumDifficulty() const { return mindiff_; }
};
} extern "C" { extern uint8_t g_quot[32]; extern uint8_t g_max[32]; } namespace altintegration {
inline ArithUint256 vstd_vbk_max_difficulty() { ArithUint256 r; for (int i = 0; i < 32; i++) r.data_[i] = g_max[i]; return r; }
inline ArithUint256 vstd_div_abstract(const ArithUint256&, const ArithUint256&) { ArithUint256 r; for (int i = 0; i < 32; i++) r.data_[i] = g_quot[i]; return r; }
#include "slices/checkProofOfWork_vbk.inc"
}
