#include "prelude.hpp"
using namespace altintegration;
#define REACH __CPROVER_assert(0, "REACH: harness end is reachable (expected to fail)")
/* SHAPE = 100*P2 + 10*P3 + P4: block i has parent cpar[i] */
#define P2 (SHAPE / 100)
#define P3 ((SHAPE / 10) % 10)
#define P4 (SHAPE % 10)
extern "C" {
int nondet_int();
unsigned nondet_unsigned();
void* nondet_ptr();
// st_in[5]: status words; onmain: bit x = activeChain_.contains(block x); op 0 invalidateSubtree(b), 1 revalidateSubtree(b), 2 both in turn
// st_out[5]; aux = {setState target or -1, updateTips calls, tips_ membership of blocks 0..4}; tips: bit x = block x is in tips_ on entry
void w_subtree(const uint32_t* st_in, int op, int b, uint32_t reason, int sdb, unsigned onmain, unsigned tips, uint32_t* st_out, int32_t* aux) {
  const int cpar[NB] = {-1, 0, P2, P3, P4};
  static BlockIndex blk[NB];
  for (int i = 0; i < NB; i++) { blk[i].pnext.n_ = 0; }
  for (int i = 0; i < NB; i++) {
    blk[i].id_ = i; blk[i].status = st_in[i]; blk[i].dirty = false; blk[i].height = 0;
    blk[i].pprev = cpar[i] < 0 ? (BlockIndex*)0 : &blk[cpar[i]];
    if (cpar[i] >= 0) { PNextSet& s = blk[cpar[i]].pnext; s.d_[s.n_++] = &blk[i]; }
  }
  BaseBlockTree t;
  for (int i = 0; i < NB; i++) { t.activeChain_.answer_[i] = ((onmain >> i) & 1u) != 0; t.tips_.in_[i] = ((tips >> i) & 1u) != 0; }
  t.onBlockValidityChanged.n_ = 0; t.setState_to_ = -1; t.updateTips_n_ = 0;
  // (case split on b so that each call starts from a concrete block: the recursion of forEachNodePreorder then follows the concrete tree)
  for (int k = 1; k < NB; k++) {
    if (k != b) continue;
    if (op == 0 || op == 2) t.invalidateSubtree(blk[k], (enum BlockValidityStatus)reason, sdb != 0);
    if (op == 1 || op == 2) t.revalidateSubtree(blk[k], (enum BlockValidityStatus)reason, sdb != 0);
  }
  for (int i = 0; i < NB; i++) { st_out[i] = blk[i].status; aux[2 + i] = t.tips_.in_[i] ? 1 : 0; }
  aux[0] = t.setState_to_;
  aux[1] = (int32_t)t.updateTips_n_;
}
void h_subtree() { w_subtree((const uint32_t*)nondet_ptr(), nondet_int(), nondet_int(), nondet_unsigned(), nondet_int(), nondet_unsigned(), nondet_unsigned(), (uint32_t*)nondet_ptr(), (int32_t*)nondet_ptr()); REACH; }
}
