/* C08 ("invalidateSubtree(B) makes B and all its descendants unusable and changes no block outside that subtree; revalidateSubtree(B)
 * undoes exactly that marking (descendants that are invalid for another reason stay invalid), so invalidate followed by revalidate
 * returns every block's validity") and C07 ("every descendant of an invalid block is reported as failed").
 * Tree of 5 blocks, block i has parent PAR(i); SHAPE = 100*P2 + 10*P3 + P4 is the harness parameter. */
#include <stddef.h>
#include <stdint.h>
#define NB 5
#define P2 (SHAPE / 100)
#define P3 ((SHAPE / 10) % 10)
#define P4 (SHAPE % 10)
#define SHAPE_OK (P2 >= 0 && P2 < 2 && P3 >= 0 && P3 < 3 && P4 >= 0 && P4 < 4)
#define PAR(i) ((i) == 1 ? 0 : (i) == 2 ? P2 : (i) == 3 ? P3 : (i) == 4 ? P4 : -1)
#define A1(i) PAR(i)
#define A2(i) PAR(PAR(i))
#define A3(i) PAR(PAR(PAR(i)))
#define A4(i) PAR(PAR(PAR(PAR(i))))
/* x is a proper descendant of b (b >= 1) */
#define ISDESC(x, b) (A1(x) == (b) || A2(x) == (b) || A3(x) == (b) || A4(x) == (b))
#define F_BLOCK 0x20u
#define F_POP 0x40u
#define F_CHILD 0x80u
#define F_MASK 0xE0u
#define FAILED(s) (((s) & F_MASK) != 0)
#define LEVEL(s) ((s) & 7u)
/* a status word the library can hold: level in [BLOCK_VALID_TREE, BLOCK_CAN_BE_APPLIED] (0 for a deleted block), never BLOCK_CAN_BE_APPLIED together with BLOCK_FAILED_POP */
#define DELETED 0x400u
#define ISDEL(s) (((s) & DELETED) != 0)
/* (a temporarily deleted block keeps only its failure flags: level BLOCK_VALID_UNKNOWN - see deleteTemporarily in unit blockindex) */
#define WF(s) (ISDEL(s) ? LEVEL(s) == 0 : (LEVEL(s) >= 1 && LEVEL(s) <= 4 && !(LEVEL(s) == 4 && ((s) & F_POP) != 0)))
#define S(st, i) ((st)[(i) < 0 ? 0 : (i)])
/* tree invariants: a (non-deleted) block carries BLOCK_FAILED_CHILD exactly when its parent is failed; the children of a deleted block are deleted */
#define INV1(st, x) ((ISDEL((st)[x]) || (((st)[x] & F_CHILD) != 0) == FAILED(S(st, PAR(x)))) && (!ISDEL(S(st, PAR(x))) || ISDEL((st)[x])))
#define INV(st) (INV1(st, 1) && INV1(st, 2) && INV1(st, 3) && INV1(st, 4) && ((st)[0] & F_CHILD) == 0)
#define NODEL(st) (!ISDEL((st)[0]) && !ISDEL((st)[1]) && !ISDEL((st)[2]) && !ISDEL((st)[3]) && !ISDEL((st)[4]))
/* isValid(): not failed and at least BLOCK_VALID_TREE */
#define BVALID (!FAILED(st_in[b]) && LEVEL(st_in[b]) >= 1)
/* the invalidating traversal reaches x: no block strictly between b and x was failed before */
#define NF(st, i) (!FAILED(S(st, i)))
#define REACHED_I(st, x, b) (A1(x) == (b) || (NF(st, A1(x)) && (A2(x) == (b) || (NF(st, A2(x)) && (A3(x) == (b) || (NF(st, A3(x)) && A4(x) == (b)))))))
#define WFALL(st) (WF((st)[0]) && WF((st)[1]) && WF((st)[2]) && WF((st)[3]) && WF((st)[4]))
/* no own failure between b and x: every block strictly between them is free of BLOCK_FAILED_BLOCK / BLOCK_FAILED_POP */
#define CLEAN(st, i) ((S(st, i) & (F_BLOCK | F_POP)) == 0)
#define REACHED(st, x, b) (A1(x) == (b) || (CLEAN(st, A1(x)) && (A2(x) == (b) || (CLEAN(st, A2(x)) && (A3(x) == (b) || (CLEAN(st, A3(x)) && A4(x) == (b)))))))
#define HAD (st_in[b] & reason)
#define OTHER (st_in[b] & F_MASK & ~reason)
#define INVALIDATED(x) (HAD != 0 ? st_in[x] : (x) == b ? (st_in[b] | reason) : (BVALID && ISDESC(x, b) && REACHED_I(st_in, x, b)) ? (st_in[x] | F_CHILD) : st_in[x])
#define REVALIDATED(x) (HAD == 0 ? st_in[x] : (x) == b ? (st_in[b] & ~reason) : (OTHER == 0 && ISDESC(x, b) && REACHED(st_in, x, b)) ? (st_in[x] & ~F_CHILD) : st_in[x])
/* C07: "the reported candidate tips are exactly the usable blocks that have no usable child" */
#ifndef TIPLEVEL
#define TIPLEVEL 1
#endif
#define CANTIP(s) (!ISDEL(s) && !FAILED(s) && LEVEL(s) >= TIPLEVEL)
#define CHILDCAN(st, x, y) (PAR(y) == (x) && CANTIP((st)[y]))
#define ISVALIDTIP(st, x) (CANTIP((st)[x]) && !CHILDCAN(st, x, 1) && !CHILDCAN(st, x, 2) && !CHILDCAN(st, x, 3) && !CHILDCAN(st, x, 4))
#define TIPBIT(x) (((tips >> (x)) & 1u) != 0)
#define TIPS_IN_OK (TIPBIT(0) == ISVALIDTIP(st_in, 0) && TIPBIT(1) == ISVALIDTIP(st_in, 1) && TIPBIT(2) == ISVALIDTIP(st_in, 2) && TIPBIT(3) == ISVALIDTIP(st_in, 3) && TIPBIT(4) == ISVALIDTIP(st_in, 4))
#define TIPS_OUT_OK ((aux[2] != 0) == ISVALIDTIP(st_out, 0) && (aux[3] != 0) == ISVALIDTIP(st_out, 1) && (aux[4] != 0) == ISVALIDTIP(st_out, 2) && (aux[5] != 0) == ISVALIDTIP(st_out, 3) && (aux[6] != 0) == ISVALIDTIP(st_out, 4))
void w_subtree_c(const uint32_t* st_in, int op, int b, uint32_t reason, int sdb, unsigned onmain, unsigned tips, uint32_t* st_out, int32_t* aux)
__CPROVER_requires(__CPROVER_is_fresh(st_in, NB * 4) && __CPROVER_is_fresh(st_out, NB * 4) && __CPROVER_is_fresh(aux, 7 * 4))
__CPROVER_requires(SHAPE_OK && op >= 0 && op <= 2 && b >= 1 && b < NB && (reason == F_BLOCK || reason == F_POP))
__CPROVER_requires(WFALL(st_in) && INV(st_in) && TIPS_IN_OK)
/* doInvalidate asserts it: BLOCK_FAILED_POP is never put on a block at BLOCK_CAN_BE_APPLIED (the tree unapplies such a block first) */
__CPROVER_requires(op == 1 || reason != F_POP || LEVEL(st_in[b]) < 4)
__CPROVER_assigns(__CPROVER_object_whole(st_out), __CPROVER_object_whole(aux))
/* invalidation flags exactly the subtree (descendants below an already failed block are not visited: if not deleted they carry the flag
 * already, by the invariant; nothing below a B that was already invalid or deleted is touched) */
__CPROVER_ensures(op != 0 || (st_out[0] == INVALIDATED(0) && st_out[1] == INVALIDATED(1) && st_out[2] == INVALIDATED(2) && st_out[3] == INVALIDATED(3) && st_out[4] == INVALIDATED(4)))
/* revalidation clears the reason on B and BLOCK_FAILED_CHILD on exactly the descendants not shadowed by another invalid block */
__CPROVER_ensures(op != 1 || (st_out[0] == REVALIDATED(0) && st_out[1] == REVALIDATED(1) && st_out[2] == REVALIDATED(2) && st_out[3] == REVALIDATED(3) && st_out[4] == REVALIDATED(4)))
/* invalidate followed by revalidate returns every block's status */
__CPROVER_ensures(op != 2 || HAD != 0 || !NODEL(st_in) || (st_out[0] == st_in[0] && st_out[1] == st_in[1] && st_out[2] == st_in[2] && st_out[3] == st_in[3] && st_out[4] == st_in[4]))
/* the invariants are preserved by each operation */
__CPROVER_ensures(WFALL(st_out) && INV(st_out))
/* the best chain is moved off B before it is flagged: setState(parent of B) exactly when a valid B on the active chain gets invalidated */
__CPROVER_ensures(op != 0 || aux[0] == ((HAD == 0 && BVALID && ((onmain >> b) & 1u) != 0) ? PAR(b) : -1))
/* the candidate-tip set is again exactly the set of usable blocks without a usable child */
__CPROVER_ensures(TIPS_OUT_OK);
