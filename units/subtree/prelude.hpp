// C08 / C07: BaseBlockTree::invalidateSubtree / revalidateSubtree (base_block_tree.hpp) with doInvalidate / doReValidate and the real
// forEachNodePreorder (tree_algo.hpp; its std::function parameter becomes a template parameter, the two capturing lambdas become named
// function objects), over BlockIndex shells that carry the real status members (slices shared with unit blockindex) and pnext as a
// small iterable set. The tree object is a shell: activeChain_.contains() answers from a flag, setState() records the call, tips_ is a
// membership array under the real tryAddTip (with the real isValidTip / canBeATip), updateTips()/signals are counted.
#include <cstdint>
#include <veriblock/pop/assert.hpp>
#include <veriblock/pop/validation_state.hpp>
#include <veriblock/pop/blockchain/block_status.hpp>
#define NB 5
namespace altintegration {
struct BlockIndex;
struct PNextSet {   // std::set<BlockIndex*>: iteration only (at most NB-1 children)
  BlockIndex* d_[NB]; size_t n_;
  PNextSet() : n_(0) {}
  size_t size() const { return n_; }
  bool empty() const { return n_ == 0; }
  BlockIndex* at_(size_t i) const { return const_cast<PNextSet*>(this)->d_[i]; }
  bool none_of_canBeATip() const;   // std::none_of(begin(), end(), [](BlockIndex* index) { return index->canBeATip(); })
};
#ifndef TIPLEVEL
#define TIPLEVEL 1
#endif
struct AddonShell {
  // alt_block_addon.hpp: BLOCK_CONNECTED; btc/vbk_block_addon.hpp: BLOCK_VALID_TREE  (harness parameter TIPLEVEL)
  static BlockStateStatus validTipLevel_f() { return (BlockStateStatus)TIPLEVEL; }
};
struct BlockIndex : public AddonShell {
  typedef int32_t height_t;
  BlockIndex* pprev;
  PNextSet pnext;
  height_t height;
  uint32_t status;
  bool dirty;
  int id_;
#include "slices/isRoot.inc"
#include "slices/getStatus.inc"
#include "slices/getValidityLevel.inc"
#include "slices/isFailed.inc"
#include "slices/isValid.inc"
#include "slices/isValidUpTo.inc"
#include "slices/setDirty.inc"
#include "slices/setFlag.inc"
#include "slices/unsetFlag.inc"
#include "slices/hasFlags.inc"
#include "slices/isTip.inc"
#include "slices/isDeleted.inc"
#include "slices/canBeATip.inc"
#include "slices/isValidTip.inc"
};
inline bool PNextSet::none_of_canBeATip() const {
  for (size_t i = 0; i < NB; i++) if (i < n_ && const_cast<PNextSet*>(this)->d_[i]->canBeATip()) return false;
  return true;
}
#include "slices/isValidInvalidationReason.inc"
typedef BlockIndex index_t;
struct BaseBlockTree;
struct lam_invalidate;
struct lam_revalidate;
#include "slices/forEachNodePreorder.inc"
struct ActiveChainShell { bool answer_[NB]; bool contains(const index_t* p) const { return p != 0 && const_cast<ActiveChainShell*>(this)->answer_[p->id_]; } };
// std::unordered_set<index_t*> tips_: membership array; an iterator is the block id (-1 = end())
struct TipsShell {
  typedef int iterator;
  bool in_[NB];
  void erase(index_t* p) { in_[p->id_] = false; }
  void erase(iterator it) { __CPROVER_assert(it >= 0 && it < NB && in_[it], "unordered_set::erase(iterator): iterator dereferenceable"); in_[it] = false; }
  iterator find(index_t* p) const { return (p != 0 && const_cast<TipsShell*>(this)->in_[p->id_]) ? p->id_ : -1; }
  iterator end() const { return -1; }
  void insert(index_t* p) { in_[p->id_] = true; }
};
struct SignalShell { unsigned n_; void emit(const index_t&) { n_++; } };
struct BaseBlockTree {
  typedef index_t index_t_;
  ActiveChainShell activeChain_;
  TipsShell tips_;
  SignalShell onBlockValidityChanged;
  int setState_to_;        // ghost: id of the block setState() was asked to move the tip to (-1: not called)
  unsigned updateTips_n_;
  bool setState(index_t& to, ValidationState&) { setState_to_ = to.id_; return true; }
#include "slices/tryAddTip.inc"
  void updateTips() { updateTips_n_++; }
#include "slices/doInvalidate.inc"
#include "slices/doReValidate.inc"
  void invalidateSubtree(index_t& toBeInvalidated, enum BlockValidityStatus reason, bool shouldDetermineBestChain);
  void revalidateSubtree(index_t& toBeValidated, enum BlockValidityStatus reason, bool shouldDetermineBestChain);
};
#include "slices/lam_invalidate.inc"
#include "slices/lam_revalidate.inc"
#include "slices/invalidateSubtree.inc"
#include "slices/revalidateSubtree.inc"
}  // namespace altintegration
