// C05-U2 / C06: containsSplit (sliced, with its macro and helper) over the real ReadStream
#include <cstdint>
#include <vector>
#include <string>
#include <array>
#include <bitset>
#include <algorithm>
#include <veriblock/pop/consts.hpp>
#include "src/pop/read_stream.cpp"
// (anonymous namespace of the original file: not supported by the front end, the helper is placed at global scope)
#include "slices/getIntFromBits.inc"
namespace altintegration {
#include "slices/VBK_COMPARE_MAGIC.inc"
#include "slices/containsSplit.inc"
}
namespace altintegration {
#include "slices/containsSplit_loop_head.inc"
// one iteration of the scanning loop of containsSplit; generated frame around the sliced body:
// returns 1 when the body executed `return X` (X stored in retval_), 0 when control reaches the end of the body or `continue`
static int split_iteration(const std::vector<uint8_t>& pop_data, ReadStream& buffer, size_t& lastPos, ValidationState& state, bool& retval_) {
  static const uint8_t magic[3] = {0x92, 0x7a, 0x59};
  for (int once_ = 0; once_ < 1; ++once_) {
#include "slices/containsSplit_loop_body.inc"
  }
  return 0;
}
}
using namespace altintegration;
#define REACH __CPROVER_assert(0, "REACH: harness end is reachable (expected to fail)")
#ifndef TXMAX
#define TXMAX 12
#endif
#ifndef POPMAX
#define POPMAX 4
#endif
extern "C" {
uint8_t nondet_u8();
size_t nondet_size_t();
int w_containsSplit(const uint8_t* pop, size_t poplen, const uint8_t* tx, size_t txlen) {
  std::vector<uint8_t> p(pop, pop + poplen), t(tx, tx + txlen);
  ValidationState st;
  bool ok = containsSplit(p, t, st);
  __CPROVER_assert(!ok || st.IsValid(), "accepted => ValidationState stays valid");
  return ok;
}
// rs: a ReadStream in an arbitrary valid state over tx[0..txlen)
int w_split_iteration(const uint8_t* pop, size_t poplen, const uint8_t* tx, size_t txlen, size_t pos, size_t* pos_out, size_t* guard) {
  std::vector<uint8_t> p(pop, pop + poplen);
  ReadStream buffer(tx, txlen);
  buffer.setPosition(pos);
  *guard = LOOP_GUARD ? 1 : 0;
  *pos_out = pos;
  if (!LOOP_GUARD) return 0;
  size_t lastPos = 0;
  ValidationState st;
  bool rv = false;
  int r = split_iteration(p, buffer, lastPos, st, rv);
  *pos_out = buffer.position();
  return r;
}
void h_split_iteration() {
  uint8_t pop[POPMAX];
  uint8_t tx[TXMAX];
  for (int i = 0; i < POPMAX; i++) pop[i] = nondet_u8();
  for (int i = 0; i < TXMAX; i++) tx[i] = nondet_u8();
  size_t poplen = nondet_size_t(), txlen = nondet_size_t(), pos = nondet_size_t(), po, g;
  __CPROVER_assume(poplen <= POPMAX && txlen <= TXMAX && txlen >= 1 && pos <= txlen);
  w_split_iteration(pop, poplen, tx, txlen, pos, &po, &g);
  REACH;
}
void h_containsSplit() {
  uint8_t pop[POPMAX];
  uint8_t tx[TXMAX];
  for (int i = 0; i < POPMAX; i++) pop[i] = nondet_u8();
  for (int i = 0; i < TXMAX; i++) tx[i] = nondet_u8();
  size_t poplen = nondet_size_t(), txlen = nondet_size_t();
  __CPROVER_assume(poplen <= POPMAX && txlen <= TXMAX);
  w_containsSplit(pop, poplen, tx, txlen);
  REACH;
}
}
