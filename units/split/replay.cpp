// native replay for unit split: runs the REAL containsSplit (sanitizer build) on the verifier's counterexample.
// The iteration harness starts the scanning loop at an arbitrary cursor `pos`; natively the loop is entered from the
// start, so the bytes before `pos` are neutralised (set to 0x00, which matches no magic byte) to let the scan reach the
// cursor with the same absolute offsets. A sanitizer report (heap-buffer-overflow / SEGV) is the reproduction.
#include <cstdio>
#include <veriblock/pop/stateless_validation.hpp>
#include "replay_inputs.hpp"
using namespace altintegration;
int main(int argc, char** argv) {
  ReplayInputs in;
  if (argc < 2 || !in.load(argv[1])) { printf("NOT-REPRODUCED: cannot read inputs\n"); return 2; }
  std::vector<uint8_t> tx = in.bytes("tx"), pop = in.bytes("pop");
  size_t txlen = (size_t)in.S("txlen", (long long)tx.size()), poplen = (size_t)in.S("poplen", (long long)pop.size());
  size_t pos = (size_t)in.S("pos", 0);
  tx.resize(txlen);
  pop.resize(poplen);
  for (size_t i = 0; i < pos && i < tx.size(); i++) tx[i] = 0;
  // exact-size heap copies so that ASan sees any over-read
  std::vector<uint8_t> tx2(tx.begin(), tx.end()), pop2(pop.begin(), pop.end());
  tx2.shrink_to_fit();
  printf("tx(%zu)=", tx2.size());
  for (auto b : tx2) printf("%02x", b);
  printf(" pop(%zu)=", pop2.size());
  for (auto b : pop2) printf("%02x", b);
  printf("\n");
  fflush(stdout);
  ValidationState st;
  bool r = containsSplit(pop2, tx2, st);
  printf("containsSplit=%d state=%s\n", r, st.toString().c_str());
  // accepted publication longer than the transaction cannot be a well-formed split
  if (r && pop2.size() > tx2.size()) { printf("REPRODUCED: accepted a publication longer than the transaction\n"); return 1; }
  printf("NOT-REPRODUCED\n");
  return 0;
}
