/* containsSplit: memory safety for every byte string up to the bound (pointer/bounds checks inside the real body
 * and the real ReadStream), ReadStream::setPosition called only within its precondition (assertion added at the
 * callee entry by a must-fire rule), and a size consequence of the split format: the sections are consecutive
 * non-overlapping ranges of the transaction, so an accepted publication is never longer than the transaction. */
#include <stddef.h>
#include <stdint.h>
#define RET __CPROVER_return_value
int w_containsSplit_c(const uint8_t* pop, size_t poplen, const uint8_t* tx, size_t txlen)
__CPROVER_requires(poplen <= POPMAX && txlen <= TXMAX)
__CPROVER_requires(__CPROVER_r_ok(pop, poplen) && __CPROVER_r_ok(tx, txlen))
__CPROVER_assigns()
__CPROVER_ensures(RET == 0 || RET == 1)
__CPROVER_ensures(RET == 1 ==> poplen <= txlen);

/* loop invariant of the scanning loop as a contract on one iteration: from any valid cursor (pos <= txlen) with the loop guard true,
 * the iteration is memory safe, calls setPosition only within its precondition, and either returns or leaves a valid cursor that
 * has advanced (progress => the loop terminates). */
int w_split_iteration_c(const uint8_t* pop, size_t poplen, const uint8_t* tx, size_t txlen, size_t pos, size_t* pos_out, size_t* guard)
__CPROVER_requires(poplen <= POPMAX && txlen <= TXMAX && txlen >= 1 && pos <= txlen)
__CPROVER_requires(__CPROVER_r_ok(pop, poplen) && __CPROVER_r_ok(tx, txlen) && __CPROVER_w_ok(pos_out, sizeof(size_t)) && __CPROVER_w_ok(guard, sizeof(size_t)))
__CPROVER_assigns(*pos_out, *guard)
__CPROVER_ensures(RET == 0 || RET == 1)
__CPROVER_ensures(RET == 0 ==> *pos_out <= txlen)
__CPROVER_ensures((RET == 0 && *guard == 1) ==> *pos_out > pos)
/* exact cursor after an iteration that does not return (C05: a decoy magic must not hide a later honest split): the scan resumes
 * right after the first byte that broke the magic, or - the magic matched and the attempt failed - right after the magic itself */
__CPROVER_ensures((RET == 0 && *guard == 1) ? *pos_out == pos + (tx[pos] != 0x92 ? 1 : tx[pos + 1] != 0x7a ? 2 : 3) : 1);
