#include "prelude.hpp"
using namespace altintegration;
#define REACH __CPROVER_assert(0, "REACH: harness end is reachable (expected to fail)")
extern "C" {
void* nondet_ptr();
// in: [0..4) heights of the VBK blocks, [4..8) on-best-chain flags, [8] number of endorsements n, [9..12) block-of-proof ids (any int: unknown ids are not found)
int w_bestpub(const int32_t* in) {
  static VbkIndex vb[VB];
  static EndorsementShell es[EMAX];
  VbkBlockTree t; AltIndexShell a;
  for (int i = 0; i < VB; i++) { vb[i].height = in[i]; vb[i].onBest = in[4 + i] != 0; t.all[i] = &vb[i]; }
  for (int j = 0; j < EMAX; j++) if (j < in[8]) { es[j].blockOfProof = in[9 + j]; a.endorsedBy.push_back(&es[j]); }
  return getBestPublicationHeight(a, t);
}
void h_bestpub() { w_bestpub((const int32_t*)nondet_ptr()); REACH; }
}
