/* C14: the publication height used for the payout score = the lowest height among the endorsements' blocks of proof that lie on the best
 * VBK chain; -1 if no endorsement qualifies (then the block pays nothing for it). */
#include <stddef.h>
#include <stdint.h>
#define RET __CPROVER_return_value
#define H(g) in[(g)]
#define ONBEST(g) (in[4 + (g)] != 0)
#define NE in[8]
#define BOP(j) in[9 + (j)]
#define KNOWN(j) (BOP(j) >= 0 && BOP(j) < 4)
#define COUNTS(j) ((j) < NE && KNOWN(j) && ONBEST(KNOWN(j) ? BOP(j) : 0))
#define PUB(j) H(KNOWN(j) ? BOP(j) : 0)
int w_bestpub_c(const int32_t* in)
__CPROVER_requires(__CPROVER_is_fresh(in, 12 * 4))
__CPROVER_requires(H(0) >= 0 && H(1) >= 0 && H(2) >= 0 && H(3) >= 0 && NE >= 0 && NE <= 3)
__CPROVER_assigns()
/* nothing qualifies <=> -1 */
__CPROVER_ensures((RET == -1) == (!COUNTS(0) && !COUNTS(1) && !COUNTS(2)))
/* otherwise a lower bound of the qualifying publications that is attained */
__CPROVER_ensures((!COUNTS(0) || RET <= PUB(0)) && (!COUNTS(1) || RET <= PUB(1)) && (!COUNTS(2) || RET <= PUB(2)))
__CPROVER_ensures(RET == -1 || (COUNTS(0) && RET == PUB(0)) || (COUNTS(1) && RET == PUB(1)) || (COUNTS(2) && RET == PUB(2)));
