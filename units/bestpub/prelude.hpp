// C14: "pays exactly the miners whose endorsements ... have their block of proof on the best VBK chain" - the publication height that
// feeds the payout score: getBestPublicationHeight sliced from src/pop/rewards/default_poprewards_calculator.cpp over array models of the
// endorsed block's endorsement list, the VBK tree's block lookup and its best chain.
#include <cstdint>
#include <vector>
#include <veriblock/pop/assert.hpp>
#define VB 4   /* VBK blocks: ids 0..VB-1; unknown ids resolve to nullptr */
#define EMAX 3
namespace altintegration {
struct EndorsementShell { int blockOfProof; };
struct VbkIndex { int32_t height; bool onBest; int32_t getHeight() const { return height; } };
struct BestChainShell { bool contains(const VbkIndex* p) const { return p != 0 && p->onBest; } };
struct VbkBlockTree {
  VbkIndex* all[VB]; BestChainShell best;
  VbkIndex* getBlockIndex(int hash) const { return (hash < 0 || hash >= VB) ? (VbkIndex*)0 : const_cast<VbkBlockTree*>(this)->all[hash]; }
  const BestChainShell& getBestChain() const { return const_cast<VbkBlockTree*>(this)->best; }
};
struct AltIndexShell {
  std::vector<EndorsementShell*> endorsedBy;
  const std::vector<EndorsementShell*>& getEndorsedBy() const { return const_cast<AltIndexShell*>(this)->endorsedBy; }
};
#include "slices/getBestPublicationHeight.inc"
}  // namespace altintegration
