// shells around the real CountingContext (sliced as a whole struct): parameters and payloads expose only what it reads
#include <cstdint>
#include <vector>
#include <algorithm>
#include <veriblock/pop/consts.hpp>
#include <veriblock/pop/validation_state.hpp>
namespace altintegration {
struct AltChainParams {
  size_t maxATVs, maxVTBs, maxVbks, maxSize;
  size_t getMaxATVsInAltBlock() const { return maxATVs; }
  size_t getMaxVTBsInAltBlock() const { return maxVTBs; }
  size_t getMaxVbkBlocksInAltBlock() const { return maxVbks; }
  size_t getMaxPopDataSize() const { return maxSize; }
};
struct ATV { size_t sz; size_t estimateSize() const { return sz; } };
struct VTB { size_t sz; size_t estimateSize() const { return sz; } };
struct VbkBlock { size_t sz; size_t estimateSize() const { return sz; } };
struct PopData { uint32_t version; };
#include "slices/trimmedArray.inc"
#include "slices/singleBEValueSize.inc"
#include "slices/CountingContext.inc"
;
}  // namespace altintegration
