// native replay for unit counting: real CountingContext + real payloads + real PopData::estimateSize.
// From the counterexample only the payload kind and the element count n at which the step is taken are used: n default
// payloads are accumulated through the real update(), the byte limit is set one below the exact size of a PopData with n+1
// elements, and the real canFit() must then refuse. Accepting => the generated PopData exceeds the configured limit.
#include <cstdio>
#include <veriblock/pop/blockchain/alt_chain_params.hpp>
#include <veriblock/pop/blockchain/pop/counting_context.hpp>
#include <veriblock/pop/entities/popdata.hpp>
#include "replay_inputs.hpp"
using namespace altintegration;
struct P : public AltChainParamsRegTest {
  P(size_t maxSize) { mMaxPopDataSize = (uint32_t)maxSize; mMaxVbkBlocksInAltBlock = 50000; mMaxVTBsInAltBlock = 50000; mMaxATVsInAltBlock = 50000; }
};
int main(int argc, char** argv) {
  ReplayInputs in;
  if (argc < 2 || !in.load(argv[1])) { printf("NOT-REPRODUCED: cannot read inputs\n"); return 2; }
  long long kind = in.S("kind", in.S("kind_wrapper", 2));
  std::vector<long long> st;
  for (auto& kv : in.a) if (kv.second.size() == 6 && st.empty()) st = kv.second;
  long long n = st.size() == 6 ? st[kind] : 255;
  // the pre-state array may have been overwritten in the trace by the post-state: try n and n-1
  for (long long cand : {n, n - 1, 255LL}) {
    if (cand < 0 || cand >= 50000) continue;
    VbkBlock blk;
    PopData pd;
    for (long long i = 0; i <= cand; i++) pd.context.push_back(blk);
    size_t exact = pd.estimateSize();  // PopData with cand+1 VBK blocks
    P params(exact - 1);
    CountingContext cc(params);
    for (long long i = 0; i < cand; i++) cc.update(blk);
    bool fit = cc.canFit(blk);
    printf("count=%lld  PopData::estimateSize(with %lld blocks)=%zu  maxPopDataSize=%zu  canFit=%d\n", cand, cand + 1, exact, exact - 1, fit);
    if (fit) { printf("REPRODUCED: canFit accepted a payload that makes PopData exceed getMaxPopDataSize()\n"); return 1; }
  }
  printf("NOT-REPRODUCED\n");
  return 0;
}
