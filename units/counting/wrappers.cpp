#include "prelude.hpp"
using namespace altintegration;
#define REACH __CPROVER_assert(0, "REACH: harness end is reachable (expected to fail)")
extern "C" {
size_t nondet_size_t();
void* nondet_ptr();
// st = {atvs, vtbs, vbks, atvs_size, vtbs_size, vbks_size}; lim = {maxATVs, maxVTBs, maxVbks, maxSize}
// kind: 0 = ATV, 1 = VTB, 2 = VbkBlock.  Performs "if (canFit(p)) update(p)" exactly as MemPool::generatePopData does.
int w_cc_step(size_t* st, const size_t* lim, int kind, size_t psize, size_t* o) {
  for (int i = 0; i < 6; i++) o[i] = st[i];
  AltChainParams params;
  params.maxATVs = lim[0]; params.maxVTBs = lim[1]; params.maxVbks = lim[2]; params.maxSize = lim[3];
  CountingContext cc(params);
  cc.atvs = st[0]; cc.vtbs = st[1]; cc.vbks = st[2]; cc.atvs_size = st[3]; cc.vtbs_size = st[4]; cc.vbks_size = st[5];
  bool fit;
  if (kind == 0) { ATV p; p.sz = psize; fit = cc.canFit(p); if (fit) cc.update(p); }
  else if (kind == 1) { VTB p; p.sz = psize; fit = cc.canFit(p); if (fit) cc.update(p); }
  else { VbkBlock p; p.sz = psize; fit = cc.canFit(p); if (fit) cc.update(p); }
  st[0] = cc.atvs; st[1] = cc.vtbs; st[2] = cc.vbks; st[3] = cc.atvs_size; st[4] = cc.vtbs_size; st[5] = cc.vbks_size;
  return fit;
}
void h_cc_step() { w_cc_step((size_t*)nondet_ptr(), (const size_t*)nondet_ptr(), (int)nondet_size_t(), nondet_size_t(), (size_t*)nondet_ptr()); REACH; }
size_t w_singleBEValueSize(long v) { return singleBEValueSize(v); }
void h_singleBEValueSize() { w_singleBEValueSize((long)nondet_size_t()); REACH; }
}
