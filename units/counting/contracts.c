/* C12: size / count accounting of the mempool's CountingContext.
 * Abstract view  sizeOf(ctx) = 4 + SUM_t (1 + trim_len(n_t) + bytes_t)  = PopData::estimateSize() of the accumulated payloads
 * (PopData: 4-byte version, then per payload type a single-BE-value count prefix followed by the elements).
 * Postcondition from the property ("respects the configured count and byte limits"):
 *   canFit(p) && update(p)  ==>  n_t' <= max_t  /\  sizeOf(ctx') <= maxPopDataSize. */
#include <stddef.h>
#include <stdint.h>
#define RET __CPROVER_return_value
/* number of significant bytes of a non-negative int64 (1 for 0); 8 for negatives */
#define TRIM_LEN(v) ((int64_t)(v) < 0 ? 8 : (uint64_t)(v) < (1UL << 8) ? 1 : (uint64_t)(v) < (1UL << 16) ? 2 : (uint64_t)(v) < (1UL << 24) ? 3 : \
                     (uint64_t)(v) < (1UL << 32) ? 4 : (uint64_t)(v) < (1UL << 40) ? 5 : (uint64_t)(v) < (1UL << 48) ? 6 : (uint64_t)(v) < (1UL << 56) ? 7 : 8)
#define SBVS(v) ((size_t)1 + TRIM_LEN(v))
#define SIZEOF(st) ((size_t)4 + SBVS((st)[0]) + (st)[3] + SBVS((st)[1]) + (st)[4] + SBVS((st)[2]) + (st)[5])
#define BIG (1UL << 33)
#ifndef KIND
#define KIND 2
#endif

int w_cc_step_c(size_t* st, const size_t* lim, int kind, size_t psize, size_t* o)
__CPROVER_requires(__CPROVER_is_fresh(st, 6 * sizeof(size_t)) && __CPROVER_is_fresh(lim, 4 * sizeof(size_t)) && __CPROVER_is_fresh(o, 6 * sizeof(size_t)))
__CPROVER_requires(kind == KIND && psize < BIG)
__CPROVER_requires(st[0] < BIG && st[1] < BIG && st[2] < BIG && st[3] < BIG && st[4] < BIG && st[5] < BIG)
/* the accumulated state respects the limits (established by earlier steps) */
__CPROVER_requires(st[0] <= lim[0] && st[1] <= lim[1] && st[2] <= lim[2] && SIZEOF(st) <= lim[3])
/* ranges the real AltChainParams getters enforce: counts <= MAX_POPDATA_* = 50000 (VBK_ASSERT), mMaxPopDataSize is a uint32_t */
__CPROVER_requires(lim[0] <= 50000 && lim[1] <= 50000 && lim[2] <= 50000 && lim[3] <= 0xffffffffUL)
__CPROVER_assigns(__CPROVER_object_whole(st), __CPROVER_object_whole(o))
/* o is the pre-state (ghost copy made by the wrapper, checked here) */
__CPROVER_ensures(o[0] == __CPROVER_old(st[0]) && o[1] == __CPROVER_old(st[1]) && o[2] == __CPROVER_old(st[2]) &&
                  o[3] == __CPROVER_old(st[3]) && o[4] == __CPROVER_old(st[4]) && o[5] == __CPROVER_old(st[5]))
__CPROVER_ensures(st[0] <= lim[0] && st[1] <= lim[1] && st[2] <= lim[2])
__CPROVER_ensures(SIZEOF(st) <= lim[3])
__CPROVER_ensures(RET == 0 ==> (st[0] == o[0] && st[1] == o[1] && st[2] == o[2] && st[3] == o[3] && st[4] == o[4] && st[5] == o[5]))
__CPROVER_ensures(RET != 0 ==> (st[KIND] == o[KIND] + 1 && st[3 + KIND] == o[3 + KIND] + psize))
/* completeness: a payload that keeps both limits is not refused */
__CPROVER_ensures((o[KIND] < lim[KIND] && SIZEOF(o) - SBVS(o[KIND]) + SBVS(o[KIND] + 1) + psize <= lim[3]) ==> RET != 0);

size_t w_singleBEValueSize_c(long v)
__CPROVER_assigns()
__CPROVER_ensures(RET == SBVS(v));
