// C05 ("PopData respects the configured count and size limits" + every payload's stateless check + no duplicates): checkPopData and
// checkPopDataForDuplicates sliced from src/pop/stateless_validation.cpp. The validator's thread pool is sequentialised: addCheck(x)
// returns a future that already holds the verdict of x (C16 - schedule independence - is not decided here). Payloads are shells that
// carry their own verdict; hasDuplicatePayloads answers from a flag per container.
#include <cstdint>
#include <vector>
#include <veriblock/pop/assert.hpp>
#include <veriblock/pop/fmt.hpp>
#include <veriblock/pop/validation_state.hpp>
extern "C" { extern const void* g_pd_; }   // the PopData under check (ghost, set by the wrapper)
namespace altintegration {
struct VbkBlock { bool valid_; };
struct VTB { bool valid_; };
struct ATV { bool valid_; };
struct PopData {
  std::vector<VbkBlock> context; std::vector<VTB> vtbs; std::vector<ATV> atvs;
  mutable bool checked;
  size_t est_; bool dup_c_, dup_v_, dup_a_;
  size_t estimateSize() const { return est_; }
};
struct AltChainParams {
  uint32_t maxSize_, maxC_, maxV_, maxA_;
  uint32_t getMaxPopDataSize() const { return maxSize_; }
  uint32_t getMaxVbkBlocksInAltBlock() const { return maxC_; }
  uint32_t getMaxVTBsInAltBlock() const { return maxV_; }
  uint32_t getMaxATVsInAltBlock() const { return maxA_; }
};
struct FutureShell { ValidationState st_; ValidationState get() { return st_; } };   // std::future<ValidationState>
struct PopValidator {
  AltChainParams alt_; unsigned scheduled_, cleared_;
  const AltChainParams& getAltParams() const { return const_cast<PopValidator*>(this)->alt_; }
  FutureShell mk(bool ok) { scheduled_++; FutureShell f; if (!ok) f.st_.Invalid("abstract-payload-invalid"); return f; }
  FutureShell addCheck(const VbkBlock& b) { return mk(b.valid_); }
  FutureShell addCheck(const VTB& b) { return mk(b.valid_); }
  FutureShell addCheck(const ATV& b) { return mk(b.valid_); }
  void clear() { cleared_++; }
};
// hasDuplicatePayloads<P>(payloads): ids are not modelled - the answer is a flag of the container's owner
inline bool hasDuplicatePayloads(const std::vector<VbkBlock>&) { return ((const PopData*)g_pd_)->dup_c_; }
inline bool hasDuplicatePayloads(const std::vector<VTB>&) { return ((const PopData*)g_pd_)->dup_v_; }
inline bool hasDuplicatePayloads(const std::vector<ATV>&) { return ((const PopData*)g_pd_)->dup_a_; }
#include "slices/checkPopDataForDuplicates.inc"
#include "slices/checkPopData.inc"
}  // namespace altintegration
