/* C05: "...and PopData respects the configured count and size limits" together with every payload's own stateless verdict and the
 * absence of duplicates. */
#include <stddef.h>
#include <stdint.h>
#define RET __CPROVER_return_value
#define CHECKED0 (in[0] != 0)
#define EST ((uint32_t)in[1])
#define MAXSIZE ((uint32_t)in[2])
#define NC in[3]
#define NV in[4]
#define NA in[5]
#define LIMITS_OK (EST <= MAXSIZE && (uint32_t)NC <= (uint32_t)in[6] && (uint32_t)NV <= (uint32_t)in[7] && (uint32_t)NA <= (uint32_t)in[8])
#define VALID(k, n, i) ((i) >= (n) || in[(k) + (i)] != 0)
#define ALL_VALID (VALID(9, NC, 0) && VALID(9, NC, 1) && VALID(11, NV, 0) && VALID(11, NV, 1) && VALID(13, NA, 0) && VALID(13, NA, 1))
#define NODUP (in[15] == 0 && in[16] == 0 && in[17] == 0)
#define ACCEPT (CHECKED0 || (LIMITS_OK && ALL_VALID && NODUP))
extern const void* g_pd_;
int w_pdc_c(const int32_t* in, int32_t* out)
__CPROVER_requires(__CPROVER_is_fresh(in, 18 * 4) && __CPROVER_is_fresh(out, 4 * 4))
__CPROVER_requires(NC >= 0 && NC <= 2 && NV >= 0 && NV <= 2 && NA >= 0 && NA <= 2)
__CPROVER_assigns(__CPROVER_object_whole(out), g_pd_)
__CPROVER_ensures((RET == 1) == ACCEPT)
__CPROVER_ensures((out[3] == 1) == (RET == 1))
/* `checked` is set exactly on acceptance (and never cleared) */
__CPROVER_ensures(out[0] == (ACCEPT ? 1 : 0))
/* when the limits hold every payload is scheduled for its stateless check; none when the PopData is refused up front or was checked before */
__CPROVER_ensures(out[1] == ((!CHECKED0 && LIMITS_OK) ? NC + NV + NA : 0))
/* the validator is cleared exactly when a payload's verdict is invalid */
__CPROVER_ensures(out[2] == ((!CHECKED0 && LIMITS_OK && !ALL_VALID) ? 1 : 0));
