#include "prelude.hpp"
using namespace altintegration;
#define REACH __CPROVER_assert(0, "REACH: harness end is reachable (expected to fail)")
extern "C" {
const void* g_pd_ = 0;
void* nondet_ptr();
// in: [0] checked before, [1] estimateSize, [2] max size, [3..6) container lengths (context, vtbs, atvs; 0..2), [6..9) count limits,
// [9..15) verdicts of the up to 6 payloads (c0, c1, v0, v1, a0, a1), [15..18) duplicate flags
// out: {checked afterwards, payloads scheduled, validator cleared, state valid}
int w_pdc(const int32_t* in, int32_t* out) {
  PopData pd; PopValidator val;
  pd.checked = in[0] != 0; pd.est_ = (size_t)(uint32_t)in[1];
  val.alt_.maxSize_ = (uint32_t)in[2]; val.alt_.maxC_ = (uint32_t)in[6]; val.alt_.maxV_ = (uint32_t)in[7]; val.alt_.maxA_ = (uint32_t)in[8];
  for (int i = 0; i < 2; i++) {
    if (i < in[3]) { VbkBlock b; b.valid_ = in[9 + i] != 0; pd.context.push_back(b); }
    if (i < in[4]) { VTB b; b.valid_ = in[11 + i] != 0; pd.vtbs.push_back(b); }
    if (i < in[5]) { ATV b; b.valid_ = in[13 + i] != 0; pd.atvs.push_back(b); }
  }
  pd.dup_c_ = in[15] != 0; pd.dup_v_ = in[16] != 0; pd.dup_a_ = in[17] != 0;
  val.scheduled_ = 0; val.cleared_ = 0;
  g_pd_ = &pd;
  ValidationState st;
  bool ok = checkPopData(val, pd, st);
  out[0] = pd.checked ? 1 : 0; out[1] = (int32_t)val.scheduled_; out[2] = (int32_t)val.cleared_; out[3] = st.IsValid() ? 1 : 0;
  return ok ? 1 : 0;
}
void h_pdc() { w_pdc((const int32_t*)nondet_ptr(), (int32_t*)nondet_ptr()); REACH; }
}
