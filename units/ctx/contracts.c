/* C05: "the carried context headers are contiguous and each meets its proof of work".
 * accepted  <=>  every header passes checkBlock  /\  every header but the first names its predecessor's hash (VBK: and height+1).
 * k (block) and j (byte) are ghost indices: the soundness clauses hold for arbitrary k, j, i.e. for all. The completeness clause is
 * written out for the bounded number of headers NMAX (this unit is labelled bounded). */
#include <stddef.h>
#include <stdint.h>
#define RET __CPROVER_return_value
#ifndef NMAX
#define NMAX 4
#endif
extern uint8_t g_checked[NMAX]; /* ghost: which blocks the abstracted checkBlock was asked about */
#define W8(p, i) (*(const uint64_t*)((p) + (i)))
#define EQ32(p, q) (W8(p, 0) == W8(q, 0) && W8(p, 8) == W8(q, 8) && W8(p, 16) == W8(q, 16) && W8(p, 24) == W8(q, 24))
#define ALLOK(ok, n) (((n) <= 0 || (ok)[0]) && ((n) <= 1 || (ok)[1]) && ((n) <= 2 || (ok)[2]) && ((n) <= 3 || (ok)[3]))
#define BLINK(i) ((n) <= (i) || EQ32(prev + 32 * (i), hash + 32 * ((i)-1)))
int w_checkBtcBlocks_c(size_t n, const uint8_t* hash, const uint8_t* prev, const uint8_t* ok, uint8_t* checked, size_t k, size_t j)
__CPROVER_requires(n <= NMAX && __CPROVER_is_fresh(hash, 32 * NMAX) && __CPROVER_is_fresh(prev, 32 * NMAX) && __CPROVER_is_fresh(ok, NMAX) && __CPROVER_is_fresh(checked, NMAX))
__CPROVER_assigns(__CPROVER_object_whole(checked), __CPROVER_object_whole(g_checked))
/* soundness: accepted => every header was checked and passed, and is linked to its predecessor */
__CPROVER_ensures((RET != 0 && k < n) ==> (checked[k] == 1 && ok[k] != 0))
__CPROVER_ensures((RET != 0 && k >= 1 && k < n && j < 32) ==> prev[32 * k + j] == hash[32 * (k - 1) + j])
/* completeness (honest contexts are accepted) */
__CPROVER_ensures((ALLOK(ok, n) && BLINK(1) && BLINK(2) && BLINK(3)) ==> RET != 0);

#define EQ12(p, q) (W8(p, 0) == W8(q, 0) && *(const uint32_t*)((p) + 8) == *(const uint32_t*)((q) + 8))
/* previous-block field of a VBK header = the last 12 bytes of the predecessor's 24-byte hash */
#define VLINK(i) ((n) <= (i) || (height[i] == height[(i)-1] + 1 && EQ12(prev + 12 * (i), hash + 24 * ((i)-1) + 12)))
int w_checkVbkBlocks_c(size_t n, const uint8_t* hash, const uint8_t* prev, const int32_t* height, const uint8_t* ok, uint8_t* checked, size_t k, size_t j)
__CPROVER_requires(n <= NMAX && __CPROVER_is_fresh(hash, 24 * NMAX) && __CPROVER_is_fresh(prev, 12 * NMAX) && __CPROVER_is_fresh(height, 4 * NMAX) &&
                   __CPROVER_is_fresh(ok, NMAX) && __CPROVER_is_fresh(checked, NMAX))
/* heights are block heights: no signed overflow in lastHeight + 1 */
__CPROVER_requires(height[0] < 2147483647 && height[1] < 2147483647 && height[2] < 2147483647 && height[3] < 2147483647)
__CPROVER_assigns(__CPROVER_object_whole(checked), __CPROVER_object_whole(g_checked))
__CPROVER_ensures((RET != 0 && k < n) ==> (checked[k] == 1 && ok[k] != 0))
__CPROVER_ensures((RET != 0 && k >= 1 && k < n) ==> height[k] == height[k - 1] + 1)
__CPROVER_ensures((RET != 0 && k >= 1 && k < n && j < 12) ==> prev[12 * k + j] == hash[24 * (k - 1) + 12 + j])
__CPROVER_ensures((ALLOK(ok, n) && VLINK(1) && VLINK(2) && VLINK(3)) ==> RET != 0);
