// C05-U4: context contiguity loops checkBtcBlocks / checkVbkBlocks sliced from stateless_validation.cpp.
// Shells: a block exposes its hash / previous-block hash / height; checkBlock (PoW + plausibility of one header: its own
// obligations are in units arith / pow) is abstracted as "returns the block's verdict and records that it was asked".
#include <cstdint>
#include <vector>
#include <veriblock/pop/consts.hpp>
#include <veriblock/pop/assert.hpp>
#include <veriblock/pop/validation_state.hpp>
#include <veriblock/pop/blob.hpp>
#ifndef NMAX
#define NMAX 4
#endif
extern "C" { extern uint8_t g_checked[NMAX]; }
namespace altintegration {
typedef Blob<32> uint256;
typedef Blob<24> uint192;
typedef Blob<12> uint96;
inline void vstd_force_blobs_() { uint256 a; uint256 b(a); b = a; uint192 c; uint192 d(c); d = c; uint96 e; uint96 f(e); f = e; }
struct BtcChainParams { int dummy; };
struct VbkChainParams { int dummy; };
struct BtcBlock {
  uint256 hash_, prev_;
  bool ok_;
  size_t idx_;
  uint256 getHash() const { return hash_; }
  uint256 getPreviousBlock() const { return prev_; }
};
struct VbkBlock {
  uint192 hash_;
  uint96 prev_;
  int32_t height_;
  bool ok_;
  size_t idx_;
  uint192 getHash() const { return hash_; }
  uint96 getPreviousBlock() const { return prev_; }
  int32_t getHeight() const { return height_; }
};
// Blob<24>::trimLE<12>(): std::copy(data() + size() - M, data() + size(), m.begin()) = the last 12 of the 24 bytes
inline uint96 vstd_trimLE12(const uint192& h) { uint96 r; for (size_t i = 0; i < 12; i++) r.data_[i] = h.data_[24 - 12 + i]; return r; }
inline bool checkBlock(const BtcBlock& b, ValidationState& state, const BtcChainParams&) {
  g_checked[b.idx_] = 1;
  if (!b.ok_) return state.Invalid("abstract-check-block");
  return true;
}
inline bool checkBlock(const VbkBlock& b, ValidationState& state, const VbkChainParams&) {
  g_checked[b.idx_] = 1;
  if (!b.ok_) return state.Invalid("abstract-check-block");
  return true;
}
#include "slices/checkBtcBlocks.inc"
#include "slices/checkVbkBlocks.inc"
}  // namespace altintegration
