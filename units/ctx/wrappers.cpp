#include "prelude.hpp"
using namespace altintegration;
#define REACH __CPROVER_assert(0, "REACH: harness end is reachable (expected to fail)")
extern "C" {
uint8_t g_checked[NMAX];
size_t nondet_size_t();
void* nondet_ptr();
// hash/prev: n*32 bytes; ok: n verdicts of the abstracted checkBlock; checked (out): which blocks checkBlock was asked about
int w_checkBtcBlocks(size_t n, const uint8_t* hash, const uint8_t* prev, const uint8_t* ok, uint8_t* checked, size_t k, size_t j) {
  std::vector<BtcBlock> v;
  for (size_t i = 0; i < n && i < NMAX; i++) {
    BtcBlock b;
    for (int t = 0; t < 32; t++) { b.hash_.data_[t] = hash[32 * i + t]; b.prev_.data_[t] = prev[32 * i + t]; }
    b.ok_ = ok[i] != 0;
    b.idx_ = i;
    v.push_back(b);
  }
  for (size_t i = 0; i < NMAX; i++) g_checked[i] = 0;
  ValidationState st;
  BtcChainParams p;
  bool r = checkBtcBlocks(v, st, p);
  __CPROVER_assert(r == st.IsValid(), "result false <=> ValidationState invalid");
  for (size_t i = 0; i < NMAX; i++) checked[i] = g_checked[i];
  return r;
}
void h_checkBtcBlocks() { w_checkBtcBlocks(nondet_size_t(), (const uint8_t*)nondet_ptr(), (const uint8_t*)nondet_ptr(), (const uint8_t*)nondet_ptr(), (uint8_t*)nondet_ptr(), nondet_size_t(), nondet_size_t()); REACH; }
// hash: n*24 bytes, prev: n*12 bytes
int w_checkVbkBlocks(size_t n, const uint8_t* hash, const uint8_t* prev, const int32_t* height, const uint8_t* ok, uint8_t* checked, size_t k, size_t j) {
  std::vector<VbkBlock> v;
  for (size_t i = 0; i < n && i < NMAX; i++) {
    VbkBlock b;
    for (int t = 0; t < 24; t++) b.hash_.data_[t] = hash[24 * i + t];
    for (int t = 0; t < 12; t++) b.prev_.data_[t] = prev[12 * i + t];
    b.height_ = height[i];
    b.ok_ = ok[i] != 0;
    b.idx_ = i;
    v.push_back(b);
  }
  for (size_t i = 0; i < NMAX; i++) g_checked[i] = 0;
  ValidationState st;
  VbkChainParams p;
  bool r = checkVbkBlocks(v, st, p);
  __CPROVER_assert(r == st.IsValid(), "result false <=> ValidationState invalid");
  for (size_t i = 0; i < NMAX; i++) checked[i] = g_checked[i];
  return r;
}
void h_checkVbkBlocks() { w_checkVbkBlocks(nondet_size_t(), (const uint8_t*)nondet_ptr(), (const uint8_t*)nondet_ptr(), (const int32_t*)nondet_ptr(), (const uint8_t*)nondet_ptr(), (uint8_t*)nondet_ptr(), nondet_size_t(), nondet_size_t()); REACH; }
}
