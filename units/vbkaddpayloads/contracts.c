/* C02: addPayloads is all-or-nothing.  Trace alphabet: S1 = 101 setState(containing), S2 = 102 setState(old tip), +k = VTB k-1 applied,
 * -k = VTB k-1 removed, U1 = 201 / U2 = 202 doUpdateAffectedTips(containing / old tip). */
#include <stddef.h>
#include <stdint.h>
#define RET __CPROVER_return_value
#define TRMAX 8
extern int g_tr[TRMAX]; extern int g_tn;
#define T(i) out[2 + (i)]
#define LEN out[1]
#define OK(i) (ok[i] != 0)
/* index of the first failing VTB among the n (n if none) */
#define F (n > 0 && !OK(0) ? 0 : n > 1 && !OK(1) ? 1 : n > 2 && !OK(2) ? 2 : n)
#define SW (onActive == 0)
/* o = offset of the first payload event: 1 if the containing block had to be activated */
#define O (SW ? 1 : 0)
int w_vap_c(int n, const int32_t* ok, int known, int valid, int onActive, int setok, int32_t* out)
__CPROVER_requires(n >= 0 && n <= 3 && __CPROVER_is_fresh(ok, 3 * 4) && __CPROVER_is_fresh(out, (2 + TRMAX) * 4))
__CPROVER_assigns(__CPROVER_object_whole(out), __CPROVER_object_whole(g_tr), g_tn)
/* nothing to add: true, no effect */
__CPROVER_ensures(n != 0 || (RET == 1 && LEN == 0))
/* unknown or invalid containing block: refused without any effect */
__CPROVER_ensures((n == 0 || (known != 0 && valid != 0)) || (RET == 0 && LEN == 0))
/* the containing block could not be activated: refused, nothing applied */
__CPROVER_ensures(!(n > 0 && known != 0 && valid != 0 && SW && setok == 0) || (RET == 0 && LEN == 1 && T(0) == 101))
/* otherwise: accepted iff every VTB applies */
__CPROVER_ensures(!(n > 0 && known != 0 && valid != 0 && (!SW || setok != 0)) || (RET == (F == n ? 1 : 0)))
__CPROVER_ensures((out[0] == 1) == (RET == 1))
/* success: [S1] +1 .. +n U1 [U2] */
__CPROVER_ensures(!(n > 0 && known != 0 && valid != 0 && (!SW || setok != 0) && F == n) ||
  (LEN == O + n + 1 + O && (!SW || T(0) == 101) && T(O) == 1 && (n < 2 || T(O + 1) == 2) && (n < 3 || T(O + 2) == 3) && T(O + n) == 201 && (!SW || T(O + n + 1) == 202)))
/* failure at VTB f: [S1] +1 .. +f  -f .. -1  [S2] : exactly the applied prefix is removed, in reverse order, and the tip restored */
__CPROVER_ensures(!(n > 0 && known != 0 && valid != 0 && (!SW || setok != 0) && F < n) ||
  (LEN == O + 2 * F + O && (!SW || T(0) == 101) && (F < 1 || (T(O) == 1 && T(O + 2 * F - 1) == -1)) && (F < 2 || (T(O + 1) == 2 && T(O + 2 * F - 2) == -2)) && (!SW || T(O + 2 * F) == 102)));
