#include "prelude.hpp"
using namespace altintegration;
#define REACH __CPROVER_assert(0, "REACH: harness end is reachable (expected to fail)")
extern "C" {
int g_tr[TRMAX]; int g_tn;
int nondet_int();
void* nondet_ptr();
// n VTBs (ids 0..n-1) with verdicts ok[i]; known / valid / onActive: the containing block (tag 1); the old tip has tag 2; setok: verdict of setState(containing)
// out = {state valid, trace length, trace[0..TRMAX)}
int w_vap(int n, const int32_t* ok, int known, int valid, int onActive, int setok, int32_t* out) {
  static VbkIdx containing, oldtip;
  containing.tag_ = 1; containing.valid_ = valid != 0; containing.onActive_ = onActive != 0;
  oldtip.tag_ = 2; oldtip.valid_ = true; oldtip.onActive_ = true;
  VbkBlockTree t;
  t.found_ = known ? &containing : (VbkIdx*)0; t.isLoadingBlocks_ = false; t.activeChain_.tip_ = &oldtip; t.setState_ok_ = setok != 0; t.setState_calls_ = 0;
  std::vector<VTB> v;
  for (int i = 0; i < 3; i++) if (i < n) { VTB x; x.id_ = i; x.ok_ = ok[i] != 0; v.push_back(x); }
  g_tn = 0;
  for (int i = 0; i < TRMAX; i++) g_tr[i] = 0;
  ValidationState st;
  int h = 5;
  bool r = t.addPayloads(h, v, st);
  out[0] = st.IsValid() ? 1 : 0; out[1] = g_tn;
  for (int i = 0; i < TRMAX; i++) out[2 + i] = g_tr[i];
  return r ? 1 : 0;
}
void h_vap() { w_vap(nondet_int(), (const int32_t*)nondet_ptr(), nondet_int(), nondet_int(), nondet_int(), nondet_int(), (int32_t*)nondet_ptr()); REACH; }
}
