// C02 / C04 / C20: VbkBlockTree::addPayloads (src/pop/blockchain/pop/vbk_block_tree.cpp): all VTBs of a call are applied to their
// containing block or none is - the ones applied before a failing VTB are removed in reverse order and the best-chain tip is restored.
// The tree is a shell with a ghost trace (like unit cmdgroup): setState(x) appends S(x), addPayloadToAppliedBlock(i) appends +(i+1) when
// it succeeds (its verdict is abstract; the function itself is proved in unit vtbapply), unsafelyRemovePayload appends -(i+1),
// doUpdateAffectedTips(x) appends U(x).
#include <cstdint>
#include <vector>
#include <veriblock/pop/assert.hpp>
#include <veriblock/pop/fmt.hpp>
#include <veriblock/pop/validation_state.hpp>
#define TRMAX 8
extern "C" { extern int g_tr[TRMAX]; extern int g_tn; }
inline void tr_push(int v) { if (g_tn < TRMAX) g_tr[g_tn] = v; g_tn++; }
namespace altintegration {
struct IdShell { int v; };
struct VTB { int id_; bool ok_; IdShell getId() const { IdShell i; i.v = id_; return i; } };
struct VbkIdx { int tag_; bool valid_, onActive_; bool isValid() const { return valid_; } };
struct ChainShell { VbkIdx* tip_; VbkIdx* tip() const { return const_cast<ChainShell*>(this)->tip_; } bool contains(const VbkIdx* p) const { return p != 0 && p->onActive_; } };
struct VbkTreeBase { VbkIdx* found_; VbkIdx* getBlockIndex(int) { return found_; } };
struct VbkBlockTree : public VbkTreeBase {
  typedef VTB payloads_t;
  typedef VbkIdx index_t;
  typedef IdShell pid_t;
  bool isLoadingBlocks_;
  ChainShell activeChain_;
  bool setState_ok_;     // verdict of the FIRST setState (switching to the containing block); restoring the old tip always succeeds in the library
  int setState_calls_;
  bool setState(index_t& to, ValidationState& state) { tr_push(100 + to.tag_); setState_calls_++; if (setState_calls_ == 1 && !setState_ok_) return state.Invalid("abstract-setstate-failed"); return true; }
  bool addPayloadToAppliedBlock(index_t&, const payloads_t& payload, ValidationState& state) { if (!payload.ok_) return state.Invalid("abstract-payload-invalid"); tr_push(payload.id_ + 1); return true; }
  void unsafelyRemovePayload(index_t&, const pid_t& pid, bool shouldDetermineBestChain) { __CPROVER_assert(!shouldDetermineBestChain, "rollback inside addPayloads does not trigger fork resolution"); tr_push(-(pid.v + 1)); }
  void doUpdateAffectedTips(index_t& i, ValidationState&) { tr_push(200 + i.tag_); }
  bool addPayloads(const int& hash, const std::vector<payloads_t>& payloads, ValidationState& state);
};
#include "slices/addPayloads.inc"
}  // namespace altintegration
