/* C04: the context info a block must carry = its height and the hashes of its two previous keystones on ITS OWN chain. For the block
 * at height H on top of prev the n-th previous keystone height is PKH(H, n) = max(0, G(H - 2) - n * ki) with G(x) the greatest multiple
 * of ki <= x (0 for H < 2) - the contract proved for getPreviousKeystoneHeight in unit keystone; the container holds the hash of prev's
 * ancestor at PKH(H, 0) and, reached from there, at PKH(H, 1); a reference whose block is not on the chain (below the root) is empty. */
#include <stddef.h>
#include <stdint.h>
#ifndef KI
#define KI 3
#endif
#define CHMAX (2 * KI + 3)
#define H (p < 0 ? 0 : root + p + 1)
#define G(x) ((x) - (x) % KI)
#define PKH(n) (H < 2 ? 0 : (G(H - 2) - (n) * KI <= 0 ? 0 : G(H - 2) - (n) * KI))
#define K1 PKH(0)
#define K2 PKH(1)
#define POS(k) ((k) - root)
/* prev's ancestor at height k exists on the modelled chain */
#define HAVE(k) (p >= 0 && (k) >= root && (k) <= root + p)
#define HASHAT(k) hs[HAVE(k) ? POS(k) : 0]
void w_ctxinfo_c(const int32_t* hs, int32_t root, int p, int32_t bootH, int32_t* out)
__CPROVER_requires(__CPROVER_is_fresh(hs, CHMAX * 4) && __CPROVER_is_fresh(out, 3 * 4) && root >= 0 && root <= 1000000 && p >= -1 && p < CHMAX)
__CPROVER_assigns(__CPROVER_object_whole(out))
__CPROVER_ensures(out[0] == (p < 0 ? bootH : root + p + 1))
__CPROVER_ensures(out[1] == (HAVE(K1) ? HASHAT(K1) : 0))
__CPROVER_ensures(out[2] == ((HAVE(K1) && HAVE(K2)) ? HASHAT(K2) : 0));
