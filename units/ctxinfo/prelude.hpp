// C04 ("each ATV ... carries context info (height, previous keystones) matching that block"): what the matching context info IS -
// ContextInfoContainer::createFromPrevious (src/pop/entities/context_info_container.cpp) and KeystoneContainer::createFromPrevious
// (src/pop/entities/keystone_container.cpp) with the real getPreviousKeystoneHeight / isKeystone (src/pop/keystone_util.cpp), over a
// contiguous chain of ALT block-index shells (hashes are integers, 0 = the empty hash).
#include <cstdint>
#include <veriblock/pop/assert.hpp>
#include "src/pop/keystone_util.cpp"
#ifndef KI
#define KI 3
#endif
#define CHMAX (2 * KI + 3)
namespace altintegration {
struct AltIdx {
  AltIdx* base_; int32_t height; int32_t root_;   // the chain holds heights root_..(root_ + CHMAX - 1)
  int hash_;
  int32_t getHeight() const { return height; }
  int getHash() const { return hash_; }
  // block_index.hpp getAncestor (unit blockindex): asserts h >= 0; the block at that height on this chain, nullptr if above this block or below the root
  const AltIdx* getAncestor(int32_t h) const { VBK_ASSERT(h >= 0); if ((h) > height || (h) < root_) return (AltIdx*)0; return base_ + (h - root_); }
};
struct KeystoneContainer { int firstPreviousKeystone, secondPreviousKeystone; KeystoneContainer() : firstPreviousKeystone(0), secondPreviousKeystone(0) {} static KeystoneContainer createFromPrevious(const AltIdx* prev, const uint32_t keystoneInterval); };
struct BootShell { int32_t h_; int32_t getHeight() const { return h_; } };
struct AltChainParams { BootShell boot_; BootShell getBootstrapBlock() const { return boot_; } uint32_t getKeystoneInterval() const { return KI; } };
struct ContextInfoContainer { int32_t height; KeystoneContainer keystones; static ContextInfoContainer createFromPrevious(const AltIdx* prev, const AltChainParams& params); };
#include "slices/ks_createFromPrevious.inc"
#include "slices/ctx_createFromPrevious.inc"
}  // namespace altintegration
