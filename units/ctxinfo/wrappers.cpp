#include "prelude.hpp"
using namespace altintegration;
#define REACH __CPROVER_assert(0, "REACH: harness end is reachable (expected to fail)")
extern "C" {
int nondet_int();
void* nondet_ptr();
// chain: heights root..root+CHMAX-1 with hashes hs[i] (non-zero); prev = the block at position p (p < 0: no previous block)
// out = {height, first previous keystone hash, second previous keystone hash}
void w_ctxinfo(const int32_t* hs, int32_t root, int p, int32_t bootH, int32_t* out) {
  static AltIdx c[CHMAX];
  for (int i = 0; i < CHMAX; i++) { c[i].base_ = c; c[i].root_ = root; c[i].height = root + i; c[i].hash_ = hs[i]; }
  AltChainParams params; params.boot_.h_ = bootH;
  ContextInfoContainer r = ContextInfoContainer::createFromPrevious(p < 0 ? (const AltIdx*)0 : &c[p], params);
  out[0] = r.height; out[1] = r.keystones.firstPreviousKeystone; out[2] = r.keystones.secondPreviousKeystone;
}
void h_ctxinfo() { w_ctxinfo((const int32_t*)nondet_ptr(), nondet_int(), nondet_int(), nondet_int(), (int32_t*)nondet_ptr()); REACH; }
}
