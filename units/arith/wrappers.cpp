// C18: wrappers around the real ArithUint256 members. Values cross the C boundary as 32 little-endian bytes
// (data_[0] is the least significant byte); inputs are copied in, results copied out, so no layout assumption is needed.
#include "prelude.hpp"
#define REACH __CPROVER_assert(0, "REACH: harness end is reachable (expected to fail)")
static ArithUint256 ld(const uint8_t* p) {
  ArithUint256 x;
  for (int i = 0; i < 32; i++) x.data_[i] = p[i];
  return x;
}
static void st(uint8_t* p, const ArithUint256& x) {
  for (int i = 0; i < 32; i++) p[i] = x.data_[i];
}
extern "C" {
size_t nondet_size_t();
void* nondet_ptr();
unsigned nondet_unsigned();
int nondet_int();

void w_fromBits(uint32_t bits, uint8_t* out, int* neg, int* ovf, unsigned k) {
  bool n = false, o = false;
  ArithUint256 t = ArithUint256::fromBits(bits, &n, &o);
  st(out, t);
  *neg = n;
  *ovf = o;
}
void h_fromBits() { w_fromBits(nondet_unsigned(), (uint8_t*)nondet_ptr(), (int*)nondet_ptr(), (int*)nondet_ptr(), nondet_unsigned()); REACH; }

uint32_t w_toBits(const uint8_t* x, int negative) { return ld(x).toBits(negative != 0); }
void h_toBits() { w_toBits((const uint8_t*)nondet_ptr(), nondet_int()); REACH; }

uint32_t w_roundtrip(uint32_t c) {
  bool n = false, o = false;
  ArithUint256 t = ArithUint256::fromBits(c, &n, &o);
  __CPROVER_assert(!n && !o, "canonical compact value decodes without sign and overflow");
  return t.toBits();
}
void h_roundtrip() { w_roundtrip(nondet_unsigned()); REACH; }

// decode(encode(x)): the compact form keeps the three most significant bytes of x
void w_encdec(const uint8_t* x, uint8_t* out, unsigned k) {
  bool n = false, o = false;
  ArithUint256 t = ArithUint256::fromBits(ld(x).toBits(), &n, &o);
  __CPROVER_assert(!n && !o, "encoding of any 256-bit value decodes without sign and overflow");
  st(out, t);
}
void h_encdec() { w_encdec((const uint8_t*)nondet_ptr(), (uint8_t*)nondet_ptr(), nondet_unsigned()); REACH; }

int w_compareTo(const uint8_t* a, const uint8_t* b) { return ld(a).compareTo(ld(b)); }
void h_compareTo() { w_compareTo((const uint8_t*)nondet_ptr(), (const uint8_t*)nondet_ptr()); REACH; }

// relational operators are the friend functions sliced from the header
int w_relops(const uint8_t* a, const uint8_t* b) {
  ArithUint256 x = ld(a), y = ld(b);
  return (x > y ? 1 : 0) | (x < y ? 2 : 0) | (x >= y ? 4 : 0) | (x <= y ? 8 : 0);
}
void h_relops() { w_relops((const uint8_t*)nondet_ptr(), (const uint8_t*)nondet_ptr()); REACH; }

void w_shl(const uint8_t* a, unsigned s, uint8_t* out) { ArithUint256 x = ld(a); x <<= s; st(out, x); }
void h_shl() { w_shl((const uint8_t*)nondet_ptr(), nondet_unsigned(), (uint8_t*)nondet_ptr()); REACH; }
void w_shr(const uint8_t* a, unsigned s, uint8_t* out) { ArithUint256 x = ld(a); x >>= s; st(out, x); }
void h_shr() { w_shr((const uint8_t*)nondet_ptr(), nondet_unsigned(), (uint8_t*)nondet_ptr()); REACH; }

void w_add(const uint8_t* a, const uint8_t* b, uint8_t* out) { ArithUint256 x = ld(a); x += ld(b); st(out, x); }
void h_add() { w_add((const uint8_t*)nondet_ptr(), (const uint8_t*)nondet_ptr(), (uint8_t*)nondet_ptr()); REACH; }
void w_sub(const uint8_t* a, const uint8_t* b, uint8_t* out) { ArithUint256 x = ld(a); x -= ld(b); st(out, x); }
void h_sub() { w_sub((const uint8_t*)nondet_ptr(), (const uint8_t*)nondet_ptr(), (uint8_t*)nondet_ptr()); REACH; }
void w_add64(const uint8_t* a, uint64_t b, uint8_t* out) { ArithUint256 x = ld(a); x += b; st(out, x); }
void h_add64() { w_add64((const uint8_t*)nondet_ptr(), nondet_size_t(), (uint8_t*)nondet_ptr()); REACH; }
void w_sub64(const uint8_t* a, uint64_t b, uint8_t* out) { ArithUint256 x = ld(a); x -= b; st(out, x); }
void h_sub64() { w_sub64((const uint8_t*)nondet_ptr(), nondet_size_t(), (uint8_t*)nondet_ptr()); REACH; }
void w_neg(const uint8_t* a, uint8_t* out) { ArithUint256 x = ld(a); st(out, -x); }
void h_neg() { w_neg((const uint8_t*)nondet_ptr(), (uint8_t*)nondet_ptr()); REACH; }
void w_inc(const uint8_t* a, uint8_t* out) { ArithUint256 x = ld(a); ++x; st(out, x); }
void h_inc() { w_inc((const uint8_t*)nondet_ptr(), (uint8_t*)nondet_ptr()); REACH; }
void w_dec(const uint8_t* a, uint8_t* out) { ArithUint256 x = ld(a); --x; st(out, x); }
void h_dec() { w_dec((const uint8_t*)nondet_ptr(), (uint8_t*)nondet_ptr()); REACH; }
void w_set64(uint64_t v, uint8_t* out) { ArithUint256 x; x = v; st(out, x); ArithUint256 y(v); __CPROVER_assert(x.compareTo(y) == 0, "ArithUint256(uint64) == operator=(uint64)"); }
void h_set64() { w_set64(nondet_size_t(), (uint8_t*)nondet_ptr()); REACH; }

unsigned w_bits(const uint8_t* a) { return ld(a).bits(); }
void h_bits() { w_bits((const uint8_t*)nondet_ptr()); REACH; }
uint64_t w_getLow64(const uint8_t* a) { return ld(a).getLow64(); }
void h_getLow64() { w_getLow64((const uint8_t*)nondet_ptr()); REACH; }

// bounded stand-ins: operands enter through the real ArithUint256(uint64_t) constructor, so their high bytes are literal zeros
// (operand type opnd_t = uintOPBITS_t, zero-extended: bytes above the operand width are literal zeros for the solver)
#ifndef OPBITS
#define OPBITS 16
#endif
#if OPBITS == 8
typedef uint8_t opnd_t;
#elif OPBITS == 16
typedef uint16_t opnd_t;
#elif OPBITS == 32
typedef uint32_t opnd_t;
#else
typedef uint64_t opnd_t;
#endif
void w_mul32_small(opnd_t a, opnd_t b, uint8_t* out) { ArithUint256 x((uint64_t)a); x *= (uint32_t)b; st(out, x); }
void h_mul32_small() { w_mul32_small((opnd_t)nondet_size_t(), (opnd_t)nondet_size_t(), (uint8_t*)nondet_ptr()); REACH; }
void w_mul_small(opnd_t a, opnd_t b, uint8_t* out) { ArithUint256 x((uint64_t)a); ArithUint256 y((uint64_t)b); x *= y; st(out, x); }
void h_mul_small() { w_mul_small((opnd_t)nondet_size_t(), (opnd_t)nondet_size_t(), (uint8_t*)nondet_ptr()); REACH; }
void w_div_small(opnd_t a, opnd_t b, uint8_t* out) { ArithUint256 x((uint64_t)a); ArithUint256 y((uint64_t)b); x /= y; st(out, x); }
void h_div_small() { w_div_small((opnd_t)nondet_size_t(), (opnd_t)nondet_size_t(), (uint8_t*)nondet_ptr()); REACH; }
// algebraic lemma on full-width operands: multiplying by 2^s is shifting left by s (ties *= to the proved <<= contract)
void w_mul_pow2(const uint8_t* a, unsigned s, uint8_t* out) { ArithUint256 x = ld(a); ArithUint256 y; y = 1; y <<= s; x *= y; st(out, x); }
void h_mul_pow2() { w_mul_pow2((const uint8_t*)nondet_ptr(), nondet_unsigned(), (uint8_t*)nondet_ptr()); REACH; }
void w_mul32_pow2(const uint8_t* a, unsigned s, uint8_t* out) { ArithUint256 x = ld(a); x *= (uint32_t)(1u << s); st(out, x); }
void h_mul32_pow2() { w_mul32_pow2((const uint8_t*)nondet_ptr(), nondet_unsigned(), (uint8_t*)nondet_ptr()); REACH; }
void w_mul32(const uint8_t* a, uint32_t b, uint8_t* out) { ArithUint256 x = ld(a); x *= b; st(out, x); }
void h_mul32() { w_mul32((const uint8_t*)nondet_ptr(), nondet_unsigned(), (uint8_t*)nondet_ptr()); REACH; }
void w_mul(const uint8_t* a, const uint8_t* b, uint8_t* out) { ArithUint256 x = ld(a); x *= ld(b); st(out, x); }
void h_mul() { w_mul((const uint8_t*)nondet_ptr(), (const uint8_t*)nondet_ptr(), (uint8_t*)nondet_ptr()); REACH; }
void w_div(const uint8_t* a, const uint8_t* b, uint8_t* out) { ArithUint256 x = ld(a); x /= ld(b); st(out, x); }
void h_div() { w_div((const uint8_t*)nondet_ptr(), (const uint8_t*)nondet_ptr(), (uint8_t*)nondet_ptr()); REACH; }
}
