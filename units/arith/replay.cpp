// native replay for unit arith: runs the REAL ArithUint256 (library built from /repo's working tree) on the verifier's
// counterexample and re-evaluates the violated postcondition with the same specification macros (spec.h).
#include <cstdio>
#include <cstring>
#include <veriblock/pop/arith_uint256.hpp>
#include "replay_inputs.hpp"
#include "spec.h"
using namespace altintegration;
static ArithUint256 ld(const std::vector<uint8_t>& v) {
  std::vector<uint8_t> b(v);
  b.resize(32);
  return ArithUint256(b);
}
static void st(uint8_t* out, const ArithUint256& x) { memcpy(out, x.data(), 32); }
static int verdict(bool holds, const char* what) {
  if (!holds) { printf("REPRODUCED: the real code violates: %s\n", what); return 1; }
  printf("NOT-REPRODUCED (%s holds on this input)\n", what);
  return 0;
}
#define WORDS_EQ(o, e0, e1, e2, e3) (W(o, 0) == (e0) && W(o, 1) == (e1) && W(o, 2) == (e2) && W(o, 3) == (e3))
int main(int argc, char** argv) {
  ReplayInputs in;
  if (argc < 3 || !in.load(argv[1])) { printf("NOT-REPRODUCED: cannot read inputs\n"); return 2; }
  std::string h = argv[2];
  std::vector<uint8_t> av = in.bytes("a"), bv = in.bytes("b"), xv = in.bytes("x");
  av.resize(32); bv.resize(32); xv.resize(32);
  const uint8_t* a = av.data(); const uint8_t* b = bv.data(); const uint8_t* x = xv.data();
  uint8_t out[32];
  unsigned s = (unsigned)in.S("s");
  if (h == "fromBits") {
    uint32_t bits = (uint32_t)in.S("bits");
    bool n = false, o = false;
    st(out, ArithUint256::fromBits(bits, &n, &o));
    bool ok = true;
    for (unsigned k = 0; k < 32; k++) ok = ok && out[k] == FB_BYTE(bits, k);
    ok = ok && n == (FB_WORD(bits) != 0 && (bits & 0x00800000u) != 0);
    ok = ok && o == (FB_WORD(bits) != 0 && BYTELEN24(FB_WORD(bits)) + FB_SIZE(bits) > 35);
    printf("bits=0x%08x negative=%d overflow=%d\n", bits, n, o);
    return verdict(ok, "fromBits(bits) == (mantissa*256^(size-3), negative, overflow) of the Bitcoin definition");
  }
  if (h == "toBits") {
    int neg = (int)in.S("negative");
    uint32_t r = ld(xv).toBits(neg != 0);
    uint32_t e = spec_toBits(x, neg);
    // the macro form of the same definition (spec.h) must agree with the single-evaluation form used by the contract
    uint32_t em = (TB_M(x) | (TB_N(x) << 24) | ((neg != 0 && (TB_M(x) & 0x007fffffu) != 0) ? 0x00800000u : 0u));
    if (e != em) { printf("NOT-REPRODUCED: spec forms disagree (0x%08x vs 0x%08x)\n", e, em); return 2; }
    printf("toBits=0x%08x expected=0x%08x\n", r, e);
    return verdict(r == e, "toBits(x) == compact encoding of the Bitcoin definition");
  }
  if (h == "roundtrip") {
    uint32_t c = (uint32_t)in.S("c");
    bool n = false, o = false;
    uint32_t r = ArithUint256::fromBits(c, &n, &o).toBits();
    printf("c=0x%08x toBits(fromBits(c))=0x%08x negative=%d overflow=%d\n", c, r, n, o);
    return verdict(!CANON(c) || (r == c && !n && !o), "toBits(fromBits(c)) == c for canonical c");
  }
  if (h == "compareTo" || h == "relops") {
    ArithUint256 p = ld(av), q = ld(bv);
    int r = p.compareTo(q), e = CMP256(a, b);
    bool ok = r == e && (p > q) == (e > 0) && (p < q) == (e < 0) && (p >= q) == (e >= 0) && (p <= q) == (e <= 0);
    printf("compareTo=%d expected=%d\n", r, e);
    return verdict(ok, "compareTo / relational operators == lexicographic order on words");
  }
  if (h == "shl" || h == "shr") {
    ArithUint256 p = ld(av);
    if (h == "shl") p <<= s; else p >>= s;
    st(out, p);
    bool ok = h == "shl" ? WORDS_EQ(out, SHL_W(a, s, 0), SHL_W(a, s, 1), SHL_W(a, s, 2), SHL_W(a, s, 3))
                         : WORDS_EQ(out, SHR_W(a, s, 0), SHR_W(a, s, 1), SHR_W(a, s, 2), SHR_W(a, s, 3));
    printf("shift=%u\n", s);
    return verdict(ok, "shift == funnel shift on words");
  }
  if (h == "add" || h == "sub" || h == "neg" || h == "inc" || h == "dec" || h == "add64" || h == "sub64") {
    ArithUint256 p = ld(av), q = ld(bv);
    uint64_t b64 = (uint64_t)in.S("b");
    bool ok = true;
    if (h == "add") { p += q; st(out, p); ok = IS_SUM(out, a, b); }
    if (h == "sub") { p -= q; st(out, p); ok = IS_SUM(a, out, b); }
    if (h == "add64") { p += b64; st(out, p); ok = IS_SUMW(out, a, b64, 0, 0, 0); }
    if (h == "sub64") { p -= b64; st(out, p); ok = IS_SUMW(a, out, b64, 0, 0, 0); }
    if (h == "neg") { st(out, -p); uint8_t z[32] = {0}; ok = IS_SUM(z, out, a); }
    if (h == "inc") { ++p; st(out, p); ok = IS_SUMW(out, a, 1, 0, 0, 0); }
    if (h == "dec") { --p; st(out, p); ok = IS_SUMW(a, out, 1, 0, 0, 0); }
    return verdict(ok, "addition/subtraction modulo 2^256 on words");
  }
  if (h == "bits") {
    unsigned r = ld(av).bits();
    bool ok = (r == 0) == IS_ZERO(a) && r <= 256;
    if (r > 0) {
      ok = ok && ((SELW(a, (r - 1) / 64) >> ((r - 1) % 64)) & 1) == 1;
      for (unsigned j = 0; j < 4; j++) ok = ok && (r > 64 * j || W(a, j) == 0);
      if (r % 64 != 0) ok = ok && (SELW(a, r / 64) >> (r % 64)) == 0;
    }
    printf("bits=%u\n", r);
    return verdict(ok, "bits() == index of the highest set bit + 1");
  }
  if (h == "mul_pow2" || h == "mul32_pow2") {
    ArithUint256 p = ld(av);
    if (h == "mul_pow2") { ArithUint256 y; y = 1; y <<= s; p *= y; } else { p *= (uint32_t)(1u << s); }
    st(out, p);
    return verdict(WORDS_EQ(out, SHL_W(a, s, 0), SHL_W(a, s, 1), SHL_W(a, s, 2), SHL_W(a, s, 3)), "x * 2^s == x << s");
  }
  if (h.find("_small") != std::string::npos) {
    uint64_t p = (uint64_t)in.S("a"), q = (uint64_t)in.S("b");
    ArithUint256 X(p), Y(q);
    uint64_t e;
    if (h.find("div") == 0) { if (q == 0) { printf("NOT-REPRODUCED: divisor 0\n"); return 0; } X /= Y; e = p / q; }
    else if (h.find("mul32") == 0) { X *= (uint32_t)q; e = p * q; }
    else { X *= Y; e = p * q; }
    st(out, X);
    printf("a=%llu b=%llu result.low64=%llu expected=%llu\n", (unsigned long long)p, (unsigned long long)q, (unsigned long long)W(out, 0), (unsigned long long)e);
    return verdict(WORDS_EQ(out, e, 0, 0, 0), "small-operand product/quotient == native arithmetic");
  }
  printf("NOT-REPRODUCED: no native evaluator for harness %s\n", h.c_str());
  return 0;
}
