#include "spec.h"
/* C18: contracts for ArithUint256 (src/pop/arith_uint256.cpp, include/veriblock/pop/arith_uint256.hpp).
 * The code works on 32 little-endian BYTES; the specifications are written on four 64-bit WORDS (and 128-bit
 * intermediate sums), i.e. in a different representation, so that a byte-level slip cannot be mirrored in the spec.
 * Quantifier-free: "for every byte k" is a ghost parameter k chosen arbitrarily by the harness. */

/* ---- compact targets: Bitcoin's definition  value = mantissa * 256^(size-3) ---- */

void w_fromBits_c(uint32_t bits, uint8_t* out, int* neg, int* ovf, unsigned k)
__CPROVER_requires(FRESH32(out) && __CPROVER_is_fresh(neg, sizeof(int)) && __CPROVER_is_fresh(ovf, sizeof(int)) && k < 32)
__CPROVER_assigns(__CPROVER_object_whole(out), *neg, *ovf)
__CPROVER_ensures(out[k] == FB_BYTE(bits, k))
__CPROVER_ensures(*neg == (FB_WORD(bits) != 0 && (bits & 0x00800000u) != 0))
/* overflow <=> mantissa * 256^(size-3) >= 2^256 <=> bytelen(mantissa) + size - 3 > 32 */
__CPROVER_ensures(*ovf == (FB_WORD(bits) != 0 && BYTELEN24(FB_WORD(bits)) + FB_SIZE(bits) > 35));


uint32_t w_toBits_c(const uint8_t* x, int negative)
__CPROVER_requires(FRESH32(x))
__CPROVER_assigns()
__CPROVER_ensures(RET == spec_toBits(x, negative));

/* canonical compact value: what toBits can produce for a non-negative number */
uint32_t w_roundtrip_c(uint32_t c)
__CPROVER_requires(CANON(c))
__CPROVER_assigns()
__CPROVER_ensures(RET == c);

/* decode(encode(x)) keeps exactly the most significant bytes the mantissa can carry (3, or 2 when the top byte has its high bit set) */
void w_encdec_c(const uint8_t* x, uint8_t* out, unsigned k)
__CPROVER_requires(FRESH32(x) && FRESH32(out) && k < 32)
__CPROVER_assigns(__CPROVER_object_whole(out))
__CPROVER_ensures(out[k] == ((k + KEEP(x) >= BYTELEN(x) && k < BYTELEN(x)) ? x[k] : 0));

/* ---- comparison: lexicographic from the most significant word ---- */
int w_compareTo_c(const uint8_t* a, const uint8_t* b)
__CPROVER_requires(FRESH32(a) && FRESH32(b))
__CPROVER_assigns()
__CPROVER_ensures(RET == CMP256(a, b));

int w_relops_c(const uint8_t* a, const uint8_t* b)
__CPROVER_requires(FRESH32(a) && FRESH32(b))
__CPROVER_assigns()
__CPROVER_ensures(RET == ((CMP256(a, b) > 0 ? 1 : 0) | (CMP256(a, b) < 0 ? 2 : 0) | (CMP256(a, b) >= 0 ? 4 : 0) | (CMP256(a, b) <= 0 ? 8 : 0)));

/* ---- shifts: funnel shift on words, every 32-bit shift amount ---- */
void w_shl_c(const uint8_t* a, unsigned s, uint8_t* out)
__CPROVER_requires(FRESH32(a) && FRESH32(out))
__CPROVER_assigns(__CPROVER_object_whole(out))
__CPROVER_ensures(W(out, 0) == SHL_W(a, s, 0) && W(out, 1) == SHL_W(a, s, 1) && W(out, 2) == SHL_W(a, s, 2) && W(out, 3) == SHL_W(a, s, 3));
void w_shr_c(const uint8_t* a, unsigned s, uint8_t* out)
__CPROVER_requires(FRESH32(a) && FRESH32(out))
__CPROVER_assigns(__CPROVER_object_whole(out))
__CPROVER_ensures(W(out, 0) == SHR_W(a, s, 0) && W(out, 1) == SHR_W(a, s, 1) && W(out, 2) == SHR_W(a, s, 2) && W(out, 3) == SHR_W(a, s, 3));

/* ---- addition modulo 2^256 on words with 128-bit intermediate sums ---- */
/* o == a + b (mod 2^256), b given by words */

void w_add_c(const uint8_t* a, const uint8_t* b, uint8_t* out)
__CPROVER_requires(FRESH32(a) && FRESH32(b) && FRESH32(out))
__CPROVER_assigns(__CPROVER_object_whole(out))
__CPROVER_ensures(IS_SUM(out, a, b));
/* out = a - b  <=>  out + b = a */
void w_sub_c(const uint8_t* a, const uint8_t* b, uint8_t* out)
__CPROVER_requires(FRESH32(a) && FRESH32(b) && FRESH32(out))
__CPROVER_assigns(__CPROVER_object_whole(out))
__CPROVER_ensures(IS_SUM(a, out, b));
void w_add64_c(const uint8_t* a, uint64_t b, uint8_t* out)
__CPROVER_requires(FRESH32(a) && FRESH32(out))
__CPROVER_assigns(__CPROVER_object_whole(out))
__CPROVER_ensures(IS_SUMW(out, a, b, 0, 0, 0));
void w_sub64_c(const uint8_t* a, uint64_t b, uint8_t* out)
__CPROVER_requires(FRESH32(a) && FRESH32(out))
__CPROVER_assigns(__CPROVER_object_whole(out))
__CPROVER_ensures(IS_SUMW(a, out, b, 0, 0, 0));
/* out = -a  <=>  out + a = 0 */
void w_neg_c(const uint8_t* a, uint8_t* out)
__CPROVER_requires(FRESH32(a) && FRESH32(out))
__CPROVER_assigns(__CPROVER_object_whole(out))
__CPROVER_ensures((uint64_t)S0(W(out, 0), W(a, 0)) == 0 && (uint64_t)S1(W(out, 0), W(out, 1), W(a, 0), W(a, 1)) == 0 &&
                  (uint64_t)S2(W(out, 0), W(out, 1), W(out, 2), W(a, 0), W(a, 1), W(a, 2)) == 0 &&
                  (uint64_t)S3(W(out, 0), W(out, 1), W(out, 2), W(out, 3), W(a, 0), W(a, 1), W(a, 2), W(a, 3)) == 0);
void w_inc_c(const uint8_t* a, uint8_t* out)
__CPROVER_requires(FRESH32(a) && FRESH32(out))
__CPROVER_assigns(__CPROVER_object_whole(out))
__CPROVER_ensures(IS_SUMW(out, a, 1, 0, 0, 0));
void w_dec_c(const uint8_t* a, uint8_t* out)
__CPROVER_requires(FRESH32(a) && FRESH32(out))
__CPROVER_assigns(__CPROVER_object_whole(out))
__CPROVER_ensures(IS_SUMW(a, out, 1, 0, 0, 0));
void w_set64_c(uint64_t v, uint8_t* out)
__CPROVER_requires(FRESH32(out))
__CPROVER_assigns(__CPROVER_object_whole(out))
__CPROVER_ensures(W(out, 0) == v && W(out, 1) == 0 && W(out, 2) == 0 && W(out, 3) == 0);

/* ---- bits(): position of the highest set bit plus one ---- */
unsigned w_bits_c(const uint8_t* a)
__CPROVER_requires(FRESH32(a))
__CPROVER_assigns()
__CPROVER_ensures((RET == 0) == IS_ZERO(a))
__CPROVER_ensures(RET <= 256)
__CPROVER_ensures(RET > 0 ==> ((SELW(a, (RET - 1) / 64) >> ((RET - 1) % 64)) & 1) == 1)
__CPROVER_ensures(RET > 0 ==> ((RET > 0 || W(a, 0) == 0) && (RET > 64 || W(a, 1) == 0) && (RET > 128 || W(a, 2) == 0) && (RET > 192 || W(a, 3) == 0)))
__CPROVER_ensures((RET > 0 && RET % 64 != 0) ==> (SELW(a, RET / 64) >> (RET % 64)) == 0);

uint64_t w_getLow64_c(const uint8_t* a)
__CPROVER_requires(FRESH32(a))
__CPROVER_assigns()
__CPROVER_ensures(RET == W(a, 0));

/* ---- multiplication / division ----
 * Equivalence of the byte-wise schoolbook loops with word-level products is beyond every installed back end for full-width
 * operands (DESIGN section 2), so the functional contracts are BOUNDED stand-ins: operands below 2^OPBITS, result compared with
 * native 64/128-bit arithmetic. Full-width operands get the algebraic facts that are cheap (annihilation, ordering) plus all
 * memory-safety / overflow obligations. */
void w_mul32_small_c(opnd_t a, opnd_t b, uint8_t* out)
__CPROVER_requires(FRESH32(out))
__CPROVER_assigns(__CPROVER_object_whole(out))
__CPROVER_ensures(W(out, 0) == (uint64_t)a * (uint64_t)b && W(out, 1) == 0 && W(out, 2) == 0 && W(out, 3) == 0);
void w_mul_small_c(opnd_t a, opnd_t b, uint8_t* out)
__CPROVER_requires(FRESH32(out))
__CPROVER_assigns(__CPROVER_object_whole(out))
__CPROVER_ensures(W(out, 0) == (uint64_t)a * (uint64_t)b && W(out, 1) == 0 && W(out, 2) == 0 && W(out, 3) == 0);
void w_div_small_c(opnd_t a, opnd_t b, uint8_t* out)
__CPROVER_requires(FRESH32(out) && b != 0)
__CPROVER_assigns(__CPROVER_object_whole(out))
__CPROVER_ensures(W(out, 0) == a / b && W(out, 1) == 0 && W(out, 2) == 0 && W(out, 3) == 0);

void w_mul_pow2_c(const uint8_t* a, unsigned s, uint8_t* out)
__CPROVER_requires(FRESH32(a) && FRESH32(out) && s < 256)
__CPROVER_assigns(__CPROVER_object_whole(out))
__CPROVER_ensures(W(out, 0) == SHL_W(a, s, 0) && W(out, 1) == SHL_W(a, s, 1) && W(out, 2) == SHL_W(a, s, 2) && W(out, 3) == SHL_W(a, s, 3));
void w_mul32_pow2_c(const uint8_t* a, unsigned s, uint8_t* out)
__CPROVER_requires(FRESH32(a) && FRESH32(out) && s < 32)
__CPROVER_assigns(__CPROVER_object_whole(out))
__CPROVER_ensures(W(out, 0) == SHL_W(a, s, 0) && W(out, 1) == SHL_W(a, s, 1) && W(out, 2) == SHL_W(a, s, 2) && W(out, 3) == SHL_W(a, s, 3));
void w_mul32_c(const uint8_t* a, uint32_t b, uint8_t* out)
__CPROVER_requires(FRESH32(a) && FRESH32(out))
__CPROVER_assigns(__CPROVER_object_whole(out))
__CPROVER_ensures((IS_ZERO(a) || b == 0) ==> IS_ZERO(out))
__CPROVER_ensures(b == 1 ==> (W(out, 0) == W(a, 0) && W(out, 1) == W(a, 1) && W(out, 2) == W(a, 2) && W(out, 3) == W(a, 3)));
void w_mul_c(const uint8_t* a, const uint8_t* b, uint8_t* out)
__CPROVER_requires(FRESH32(a) && FRESH32(b) && FRESH32(out))
__CPROVER_assigns(__CPROVER_object_whole(out))
__CPROVER_ensures((IS_ZERO(a) || IS_ZERO(b)) ==> IS_ZERO(out));
void w_div_c(const uint8_t* a, const uint8_t* b, uint8_t* out)
__CPROVER_requires(FRESH32(a) && FRESH32(b) && FRESH32(out))
__CPROVER_requires(!IS_ZERO(b))
__CPROVER_assigns(__CPROVER_object_whole(out))
__CPROVER_ensures(CMP256(a, b) < 0 ==> IS_ZERO(out));
