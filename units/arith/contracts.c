/* C18: contracts for ArithUint256 (src/pop/arith_uint256.cpp, include/veriblock/pop/arith_uint256.hpp).
 * The code works on 32 little-endian BYTES; the specifications are written on four 64-bit WORDS (and 128-bit
 * intermediate sums), i.e. in a different representation, so that a byte-level slip cannot be mirrored in the spec.
 * Quantifier-free: "for every byte k" is a ghost parameter k chosen arbitrarily by the harness. */
#include <stddef.h>
#include <stdint.h>
typedef unsigned __int128 u128;
#define RET __CPROVER_return_value
#define FRESH32(p) __CPROVER_is_fresh(p, 32)
#define W(a, j) (*(const uint64_t*)((a) + 8 * (j)))
#define SELW(a, i) ((i) == 0 ? W(a, 0) : (i) == 1 ? W(a, 1) : (i) == 2 ? W(a, 2) : W(a, 3))
#define IS_ZERO(a) (W(a, 0) == 0 && W(a, 1) == 0 && W(a, 2) == 0 && W(a, 3) == 0)

/* ---- compact targets: Bitcoin's definition  value = mantissa * 256^(size-3) ---- */
#define FB_SIZE(b) ((b) >> 24)
#define FB_MANT(b) ((b)&0x007fffffu)
#define FB_WORD(b) (FB_SIZE(b) <= 3 ? FB_MANT(b) >> (8 * (3 - FB_SIZE(b))) : FB_MANT(b))
#define FB_SHIFT(b) (FB_SIZE(b) <= 3 ? 0u : FB_SIZE(b) - 3) /* bytes */
#define FB_BYTE(b, k) (((k) >= FB_SHIFT(b) && (k)-FB_SHIFT(b) < 3) ? (uint8_t)(FB_WORD(b) >> (8 * ((k)-FB_SHIFT(b)))) : (uint8_t)0)
#define BYTELEN24(w) ((w) > 0xffff ? 3 : (w) > 0xff ? 2 : (w) > 0 ? 1 : 0)

void w_fromBits_c(uint32_t bits, uint8_t* out, int* neg, int* ovf, unsigned k)
__CPROVER_requires(FRESH32(out) && __CPROVER_is_fresh(neg, sizeof(int)) && __CPROVER_is_fresh(ovf, sizeof(int)) && k < 32)
__CPROVER_assigns(__CPROVER_object_whole(out), *neg, *ovf)
__CPROVER_ensures(out[k] == FB_BYTE(bits, k))
__CPROVER_ensures(*neg == (FB_WORD(bits) != 0 && (bits & 0x00800000u) != 0))
/* overflow <=> mantissa * 256^(size-3) >= 2^256 <=> bytelen(mantissa) + size - 3 > 32 */
__CPROVER_ensures(*ovf == (FB_WORD(bits) != 0 && BYTELEN24(FB_WORD(bits)) + FB_SIZE(bits) > 35));

#define BL64(w) ((w) >> 56 ? 8 : (w) >> 48 ? 7 : (w) >> 40 ? 6 : (w) >> 32 ? 5 : (w) >> 24 ? 4 : (w) >> 16 ? 3 : (w) >> 8 ? 2 : (w) ? 1 : 0)
#define BYTELEN(a) (W(a, 3) ? 24 + BL64(W(a, 3)) : W(a, 2) ? 16 + BL64(W(a, 2)) : W(a, 1) ? 8 + BL64(W(a, 1)) : BL64(W(a, 0)))
#define TB_M0(a) (BYTELEN(a) <= 3 ? ((uint32_t)W(a, 0)) << (8 * (3 - BYTELEN(a))) \
                                  : ((uint32_t)(a)[BYTELEN(a) - 1] << 16 | (uint32_t)(a)[BYTELEN(a) - 2] << 8 | (uint32_t)(a)[BYTELEN(a) - 3]))
#define TB_CARRY(a) ((TB_M0(a) & 0x00800000u) != 0)
#define TB_M(a) (TB_CARRY(a) ? TB_M0(a) >> 8 : TB_M0(a))
#define TB_N(a) ((uint32_t)BYTELEN(a) + (TB_CARRY(a) ? 1u : 0u))

uint32_t w_toBits_c(const uint8_t* x, int negative)
__CPROVER_requires(FRESH32(x))
__CPROVER_assigns()
__CPROVER_ensures(RET == (TB_M(x) | (TB_N(x) << 24) | ((negative != 0 && (TB_M(x) & 0x007fffffu) != 0) ? 0x00800000u : 0u)));

/* canonical compact value: what toBits can produce for a non-negative number */
#define CANON(c) ((c) == 0 || (((c)&0x00800000u) == 0 && (((c) >> 16) & 0x7fu) != 0 && ((c) >> 24) >= 1 && ((c) >> 24) <= 32 && \
                               (((c) >> 24) != 1 || ((c)&0xffffu) == 0) && (((c) >> 24) != 2 || ((c)&0xffu) == 0)))
uint32_t w_roundtrip_c(uint32_t c)
__CPROVER_requires(CANON(c))
__CPROVER_assigns()
__CPROVER_ensures(RET == c);

/* decode(encode(x)) keeps exactly the most significant bytes the mantissa can carry (3, or 2 when the top byte has its high bit set) */
#define KEEP(x) ((BYTELEN(x) > 0 && ((x)[BYTELEN(x) - 1] & 0x80) != 0) ? 2 : 3)
void w_encdec_c(const uint8_t* x, uint8_t* out, unsigned k)
__CPROVER_requires(FRESH32(x) && FRESH32(out) && k < 32)
__CPROVER_assigns(__CPROVER_object_whole(out))
__CPROVER_ensures(out[k] == ((k + KEEP(x) >= BYTELEN(x) && k < BYTELEN(x)) ? x[k] : 0));

/* ---- comparison: lexicographic from the most significant word ---- */
#define CMPW(a, b, j, rest) (W(a, j) < W(b, j) ? -1 : W(a, j) > W(b, j) ? 1 : (rest))
#define CMP256(a, b) CMPW(a, b, 3, CMPW(a, b, 2, CMPW(a, b, 1, CMPW(a, b, 0, 0))))
int w_compareTo_c(const uint8_t* a, const uint8_t* b)
__CPROVER_requires(FRESH32(a) && FRESH32(b))
__CPROVER_assigns()
__CPROVER_ensures(RET == CMP256(a, b));

int w_relops_c(const uint8_t* a, const uint8_t* b)
__CPROVER_requires(FRESH32(a) && FRESH32(b))
__CPROVER_assigns()
__CPROVER_ensures(RET == ((CMP256(a, b) > 0 ? 1 : 0) | (CMP256(a, b) < 0 ? 2 : 0) | (CMP256(a, b) >= 0 ? 4 : 0) | (CMP256(a, b) <= 0 ? 8 : 0)));

/* ---- shifts: funnel shift on words, every 32-bit shift amount ---- */
#define SHL_W(a, s, j) ((((s) < 256 && (j) >= (s) / 64) ? SELW(a, (j) - (s) / 64) << ((s) % 64) : 0) | \
                        (((s) < 256 && (s) % 64 != 0 && (j) >= (s) / 64 + 1) ? SELW(a, (j) - (s) / 64 - 1) >> (64 - (s) % 64) : 0))
#define SHR_W(a, s, j) ((((s) < 256 && (j) + (s) / 64 <= 3) ? SELW(a, (j) + (s) / 64) >> ((s) % 64) : 0) | \
                        (((s) < 256 && (s) % 64 != 0 && (j) + (s) / 64 + 1 <= 3) ? SELW(a, (j) + (s) / 64 + 1) << (64 - (s) % 64) : 0))
void w_shl_c(const uint8_t* a, unsigned s, uint8_t* out)
__CPROVER_requires(FRESH32(a) && FRESH32(out))
__CPROVER_assigns(__CPROVER_object_whole(out))
__CPROVER_ensures(W(out, 0) == SHL_W(a, s, 0) && W(out, 1) == SHL_W(a, s, 1) && W(out, 2) == SHL_W(a, s, 2) && W(out, 3) == SHL_W(a, s, 3));
void w_shr_c(const uint8_t* a, unsigned s, uint8_t* out)
__CPROVER_requires(FRESH32(a) && FRESH32(out))
__CPROVER_assigns(__CPROVER_object_whole(out))
__CPROVER_ensures(W(out, 0) == SHR_W(a, s, 0) && W(out, 1) == SHR_W(a, s, 1) && W(out, 2) == SHR_W(a, s, 2) && W(out, 3) == SHR_W(a, s, 3));

/* ---- addition modulo 2^256 on words with 128-bit intermediate sums ---- */
#define S0(a0, b0) ((u128)(a0) + (b0))
#define S1(a0, a1, b0, b1) ((u128)(a1) + (b1) + (S0(a0, b0) >> 64))
#define S2(a0, a1, a2, b0, b1, b2) ((u128)(a2) + (b2) + (S1(a0, a1, b0, b1) >> 64))
#define S3(a0, a1, a2, a3, b0, b1, b2, b3) ((u128)(a3) + (b3) + (S2(a0, a1, a2, b0, b1, b2) >> 64))
/* o == a + b (mod 2^256), b given by words */
#define IS_SUMW(o, a, b0, b1, b2, b3)                                                                            \
  (W(o, 0) == (uint64_t)S0(W(a, 0), b0) && W(o, 1) == (uint64_t)S1(W(a, 0), W(a, 1), b0, b1) &&                  \
   W(o, 2) == (uint64_t)S2(W(a, 0), W(a, 1), W(a, 2), b0, b1, b2) &&                                             \
   W(o, 3) == (uint64_t)S3(W(a, 0), W(a, 1), W(a, 2), W(a, 3), b0, b1, b2, b3))
#define IS_SUM(o, a, b) IS_SUMW(o, a, W(b, 0), W(b, 1), W(b, 2), W(b, 3))

void w_add_c(const uint8_t* a, const uint8_t* b, uint8_t* out)
__CPROVER_requires(FRESH32(a) && FRESH32(b) && FRESH32(out))
__CPROVER_assigns(__CPROVER_object_whole(out))
__CPROVER_ensures(IS_SUM(out, a, b));
/* out = a - b  <=>  out + b = a */
void w_sub_c(const uint8_t* a, const uint8_t* b, uint8_t* out)
__CPROVER_requires(FRESH32(a) && FRESH32(b) && FRESH32(out))
__CPROVER_assigns(__CPROVER_object_whole(out))
__CPROVER_ensures(IS_SUM(a, out, b));
void w_add64_c(const uint8_t* a, uint64_t b, uint8_t* out)
__CPROVER_requires(FRESH32(a) && FRESH32(out))
__CPROVER_assigns(__CPROVER_object_whole(out))
__CPROVER_ensures(IS_SUMW(out, a, b, 0, 0, 0));
void w_sub64_c(const uint8_t* a, uint64_t b, uint8_t* out)
__CPROVER_requires(FRESH32(a) && FRESH32(out))
__CPROVER_assigns(__CPROVER_object_whole(out))
__CPROVER_ensures(IS_SUMW(a, out, b, 0, 0, 0));
/* out = -a  <=>  out + a = 0 */
void w_neg_c(const uint8_t* a, uint8_t* out)
__CPROVER_requires(FRESH32(a) && FRESH32(out))
__CPROVER_assigns(__CPROVER_object_whole(out))
__CPROVER_ensures((uint64_t)S0(W(out, 0), W(a, 0)) == 0 && (uint64_t)S1(W(out, 0), W(out, 1), W(a, 0), W(a, 1)) == 0 &&
                  (uint64_t)S2(W(out, 0), W(out, 1), W(out, 2), W(a, 0), W(a, 1), W(a, 2)) == 0 &&
                  (uint64_t)S3(W(out, 0), W(out, 1), W(out, 2), W(out, 3), W(a, 0), W(a, 1), W(a, 2), W(a, 3)) == 0);
void w_inc_c(const uint8_t* a, uint8_t* out)
__CPROVER_requires(FRESH32(a) && FRESH32(out))
__CPROVER_assigns(__CPROVER_object_whole(out))
__CPROVER_ensures(IS_SUMW(out, a, 1, 0, 0, 0));
void w_dec_c(const uint8_t* a, uint8_t* out)
__CPROVER_requires(FRESH32(a) && FRESH32(out))
__CPROVER_assigns(__CPROVER_object_whole(out))
__CPROVER_ensures(IS_SUMW(a, out, 1, 0, 0, 0));
void w_set64_c(uint64_t v, uint8_t* out)
__CPROVER_requires(FRESH32(out))
__CPROVER_assigns(__CPROVER_object_whole(out))
__CPROVER_ensures(W(out, 0) == v && W(out, 1) == 0 && W(out, 2) == 0 && W(out, 3) == 0);

/* ---- bits(): position of the highest set bit plus one ---- */
unsigned w_bits_c(const uint8_t* a)
__CPROVER_requires(FRESH32(a))
__CPROVER_assigns()
__CPROVER_ensures((RET == 0) == IS_ZERO(a))
__CPROVER_ensures(RET <= 256)
__CPROVER_ensures(RET > 0 ==> ((SELW(a, (RET - 1) / 64) >> ((RET - 1) % 64)) & 1) == 1)
__CPROVER_ensures(RET > 0 ==> ((RET > 0 || W(a, 0) == 0) && (RET > 64 || W(a, 1) == 0) && (RET > 128 || W(a, 2) == 0) && (RET > 192 || W(a, 3) == 0)))
__CPROVER_ensures((RET > 0 && RET % 64 != 0) ==> (SELW(a, RET / 64) >> (RET % 64)) == 0);

uint64_t w_getLow64_c(const uint8_t* a)
__CPROVER_requires(FRESH32(a))
__CPROVER_assigns()
__CPROVER_ensures(RET == W(a, 0));

/* ---- multiplication / division ----
 * Equivalence of the byte-wise schoolbook loops with word-level products is beyond every installed back end for full-width
 * operands (DESIGN section 2), so the functional contracts are BOUNDED stand-ins: operands below 2^OPBITS, result compared with
 * native 64/128-bit arithmetic. Full-width operands get the algebraic facts that are cheap (annihilation, ordering) plus all
 * memory-safety / overflow obligations. */
#ifndef OPBITS
#define OPBITS 16
#endif
#if OPBITS == 8
typedef uint8_t opnd_t;
#elif OPBITS == 16
typedef uint16_t opnd_t;
#elif OPBITS == 32
typedef uint32_t opnd_t;
#else
typedef uint64_t opnd_t;
#endif
void w_mul32_small_c(opnd_t a, opnd_t b, uint8_t* out)
__CPROVER_requires(FRESH32(out))
__CPROVER_assigns(__CPROVER_object_whole(out))
__CPROVER_ensures(W(out, 0) == (uint64_t)a * (uint64_t)b && W(out, 1) == 0 && W(out, 2) == 0 && W(out, 3) == 0);
void w_mul_small_c(opnd_t a, opnd_t b, uint8_t* out)
__CPROVER_requires(FRESH32(out))
__CPROVER_assigns(__CPROVER_object_whole(out))
__CPROVER_ensures(W(out, 0) == (uint64_t)a * (uint64_t)b && W(out, 1) == 0 && W(out, 2) == 0 && W(out, 3) == 0);
void w_div_small_c(opnd_t a, opnd_t b, uint8_t* out)
__CPROVER_requires(FRESH32(out) && b != 0)
__CPROVER_assigns(__CPROVER_object_whole(out))
__CPROVER_ensures(W(out, 0) == a / b && W(out, 1) == 0 && W(out, 2) == 0 && W(out, 3) == 0);

void w_mul_pow2_c(const uint8_t* a, unsigned s, uint8_t* out)
__CPROVER_requires(FRESH32(a) && FRESH32(out) && s < 256)
__CPROVER_assigns(__CPROVER_object_whole(out))
__CPROVER_ensures(W(out, 0) == SHL_W(a, s, 0) && W(out, 1) == SHL_W(a, s, 1) && W(out, 2) == SHL_W(a, s, 2) && W(out, 3) == SHL_W(a, s, 3));
void w_mul32_pow2_c(const uint8_t* a, unsigned s, uint8_t* out)
__CPROVER_requires(FRESH32(a) && FRESH32(out) && s < 32)
__CPROVER_assigns(__CPROVER_object_whole(out))
__CPROVER_ensures(W(out, 0) == SHL_W(a, s, 0) && W(out, 1) == SHL_W(a, s, 1) && W(out, 2) == SHL_W(a, s, 2) && W(out, 3) == SHL_W(a, s, 3));
void w_mul32_c(const uint8_t* a, uint32_t b, uint8_t* out)
__CPROVER_requires(FRESH32(a) && FRESH32(out))
__CPROVER_assigns(__CPROVER_object_whole(out))
__CPROVER_ensures((IS_ZERO(a) || b == 0) ==> IS_ZERO(out))
__CPROVER_ensures(b == 1 ==> (W(out, 0) == W(a, 0) && W(out, 1) == W(a, 1) && W(out, 2) == W(a, 2) && W(out, 3) == W(a, 3)));
void w_mul_c(const uint8_t* a, const uint8_t* b, uint8_t* out)
__CPROVER_requires(FRESH32(a) && FRESH32(b) && FRESH32(out))
__CPROVER_assigns(__CPROVER_object_whole(out))
__CPROVER_ensures((IS_ZERO(a) || IS_ZERO(b)) ==> IS_ZERO(out));
void w_div_c(const uint8_t* a, const uint8_t* b, uint8_t* out)
__CPROVER_requires(FRESH32(a) && FRESH32(b) && FRESH32(out))
__CPROVER_requires(!IS_ZERO(b))
__CPROVER_assigns(__CPROVER_object_whole(out))
__CPROVER_ensures(CMP256(a, b) < 0 ==> IS_ZERO(out));
