// C18: ArithUint256 - the real class (sliced whole from arith_uint256.hpp) over the Blob<N> stub, the friend
// operators re-emitted at namespace scope (CBMC has no ADL for in-class friend definitions), and the
// out-of-class definitions sliced from src/pop/arith_uint256.cpp.
#include <cstdint>
#include <cstring>
#include <limits>
#include <string>
#include <vector>
#include <veriblock/pop/consts.hpp>
#include <veriblock/pop/assert.hpp>
#include <veriblock/pop/blob.hpp>
// `throw uint_error(..)` leaves the function exceptionally; under the contracts' preconditions it must be unreachable
#define VERIF_THROW(what) { __CPROVER_assert(0, "THROW: " what " must be unreachable under the stated precondition"); __CPROVER_assume(0); }
namespace altintegration {
// CBMC instantiates the members of a class template only when they are used outside a base-class position
inline void vstd_force_blob32_() { Blob<32> a; Blob<32> b(a); b = a; }
#include "slices/class_ArithUint256.inc"
;
#include "slices/friends.inc"
}
using namespace altintegration;
#include "slices/fromBits.inc"
#include "slices/compareTo.inc"
#include "slices/shl.inc"
#include "slices/shr.inc"
#include "slices/mul32.inc"
#include "slices/mul.inc"
#include "slices/div.inc"
#include "slices/bits.inc"
#include "slices/toBits.inc"
#include "slices/getLow64.inc"
