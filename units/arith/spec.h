/* specification macros of unit arith: shared by contracts.c (CBMC) and replay.cpp (native re-evaluation of the
 * violated postcondition on the real library). Words are little-endian 64-bit limbs of the 32-byte value. */
#ifndef ARITH_SPEC_H
#define ARITH_SPEC_H
#include <stddef.h>
#include <stdint.h>
typedef unsigned __int128 u128;
#define RET __CPROVER_return_value
#define FRESH32(p) __CPROVER_is_fresh(p, 32)
#define W(a, j) (*(const uint64_t*)((a) + 8 * (j)))
#define SELW(a, i) ((i) == 0 ? W(a, 0) : (i) == 1 ? W(a, 1) : (i) == 2 ? W(a, 2) : W(a, 3))
#define IS_ZERO(a) (W(a, 0) == 0 && W(a, 1) == 0 && W(a, 2) == 0 && W(a, 3) == 0)
#define FB_SIZE(b) ((b) >> 24)
#define FB_MANT(b) ((b)&0x007fffffu)
#define FB_WORD(b) (FB_SIZE(b) <= 3 ? FB_MANT(b) >> (8 * (3 - FB_SIZE(b))) : FB_MANT(b))
#define FB_SHIFT(b) (FB_SIZE(b) <= 3 ? 0u : FB_SIZE(b) - 3) /* bytes */
#define FB_BYTE(b, k) (((k) >= FB_SHIFT(b) && (k)-FB_SHIFT(b) < 3) ? (uint8_t)(FB_WORD(b) >> (8 * ((k)-FB_SHIFT(b)))) : (uint8_t)0)
#define BYTELEN24(w) ((w) > 0xffff ? 3 : (w) > 0xff ? 2 : (w) > 0 ? 1 : 0)
#define BL64(w) ((w) >> 56 ? 8 : (w) >> 48 ? 7 : (w) >> 40 ? 6 : (w) >> 32 ? 5 : (w) >> 24 ? 4 : (w) >> 16 ? 3 : (w) >> 8 ? 2 : (w) ? 1 : 0)
#define BYTELEN(a) (W(a, 3) ? 24 + BL64(W(a, 3)) : W(a, 2) ? 16 + BL64(W(a, 2)) : W(a, 1) ? 8 + BL64(W(a, 1)) : BL64(W(a, 0)))
#define TB_M0(a) (BYTELEN(a) <= 3 ? ((uint32_t)W(a, 0)) << (8 * (3 - BYTELEN(a))) \
                                  : ((uint32_t)(a)[BYTELEN(a) - 1] << 16 | (uint32_t)(a)[BYTELEN(a) - 2] << 8 | (uint32_t)(a)[BYTELEN(a) - 3]))
#define TB_CARRY(a) ((TB_M0(a) & 0x00800000u) != 0)
#define TB_M(a) (TB_CARRY(a) ? TB_M0(a) >> 8 : TB_M0(a))
#define TB_N(a) ((uint32_t)BYTELEN(a) + (TB_CARRY(a) ? 1u : 0u))
/* the same definition with every sub-term evaluated once (the macro form repeats BYTELEN about sixty times in one
 * postcondition, which costs the symbolic executor minutes): SPEC_TOBITS(a, negative) is the compact encoding */
static inline uint32_t spec_toBits(const uint8_t* a, int negative) {
  const unsigned n = BYTELEN(a);
  const uint32_t m0 = n <= 3 ? ((uint32_t)W(a, 0)) << (8 * (3 - n))
                             : ((uint32_t)a[n - 1] << 16 | (uint32_t)a[n - 2] << 8 | (uint32_t)a[n - 3]);
  const int carry = (m0 & 0x00800000u) != 0;
  const uint32_t m = carry ? m0 >> 8 : m0;
  const uint32_t size = (uint32_t)n + (carry ? 1u : 0u);
  return m | (size << 24) | ((negative != 0 && (m & 0x007fffffu) != 0) ? 0x00800000u : 0u);
}
#define CANON(c) ((c) == 0 || (((c)&0x00800000u) == 0 && (((c) >> 16) & 0x7fu) != 0 && ((c) >> 24) >= 1 && ((c) >> 24) <= 32 && \
                               (((c) >> 24) != 1 || ((c)&0xffffu) == 0) && (((c) >> 24) != 2 || ((c)&0xffu) == 0)))
#define KEEP(x) ((BYTELEN(x) > 0 && ((x)[BYTELEN(x) - 1] & 0x80) != 0) ? 2 : 3)
#define CMPW(a, b, j, rest) (W(a, j) < W(b, j) ? -1 : W(a, j) > W(b, j) ? 1 : (rest))
#define CMP256(a, b) CMPW(a, b, 3, CMPW(a, b, 2, CMPW(a, b, 1, CMPW(a, b, 0, 0))))
#define SHL_W(a, s, j) ((((s) < 256 && (j) >= (s) / 64) ? SELW(a, (j) - (s) / 64) << ((s) % 64) : 0) | \
                        (((s) < 256 && (s) % 64 != 0 && (j) >= (s) / 64 + 1) ? SELW(a, (j) - (s) / 64 - 1) >> (64 - (s) % 64) : 0))
#define SHR_W(a, s, j) ((((s) < 256 && (j) + (s) / 64 <= 3) ? SELW(a, (j) + (s) / 64) >> ((s) % 64) : 0) | \
                        (((s) < 256 && (s) % 64 != 0 && (j) + (s) / 64 + 1 <= 3) ? SELW(a, (j) + (s) / 64 + 1) << (64 - (s) % 64) : 0))
#define S0(a0, b0) ((u128)(a0) + (b0))
#define S1(a0, a1, b0, b1) ((u128)(a1) + (b1) + (S0(a0, b0) >> 64))
#define S2(a0, a1, a2, b0, b1, b2) ((u128)(a2) + (b2) + (S1(a0, a1, b0, b1) >> 64))
#define S3(a0, a1, a2, a3, b0, b1, b2, b3) ((u128)(a3) + (b3) + (S2(a0, a1, a2, b0, b1, b2) >> 64))
#define IS_SUMW(o, a, b0, b1, b2, b3)                                                                            \
  (W(o, 0) == (uint64_t)S0(W(a, 0), b0) && W(o, 1) == (uint64_t)S1(W(a, 0), W(a, 1), b0, b1) &&                  \
   W(o, 2) == (uint64_t)S2(W(a, 0), W(a, 1), W(a, 2), b0, b1, b2) &&                                             \
   W(o, 3) == (uint64_t)S3(W(a, 0), W(a, 1), W(a, 2), W(a, 3), b0, b1, b2, b3))
#define IS_SUM(o, a, b) IS_SUMW(o, a, W(b, 0), W(b, 1), W(b, 2), W(b, 3))
#ifndef OPBITS
#define OPBITS 16
#endif
#if OPBITS == 8
typedef uint8_t opnd_t;
#elif OPBITS == 16
typedef uint16_t opnd_t;
#elif OPBITS == 32
typedef uint32_t opnd_t;
#else
typedef uint64_t opnd_t;
#endif
#endif
