#include "prelude.hpp"
using namespace altintegration;
#define REACH __CPROVER_assert(0, "REACH: harness end is reachable (expected to fail)")
#define NB 5
/* SHAPE = 100*P2 + 10*P3 + P4 */
#define P2 (SHAPE / 100)
#define P3 ((SHAPE / 10) % 10)
#define P4 (SHAPE % 10)
extern "C" {
int nondet_int();
void* nondet_ptr();
static int idx_of(const BlockIndex* b, const BlockIndex* p) { return p == 0 ? -1 : (int)(p - b); }
// tree: block i has parent cpar[i] (< i) - the shape (P2, P3, P4) is a harness parameter, one harness per shape, so that the pprev
// pointers are concrete; the root has height `base`, heights follow parents
static void build(BlockIndex* b, int32_t base) {
  const int cpar[NB] = {-1, 0, P2, P3, P4};
  for (int i = 0; i < NB; i++) {
    b[i].pprev = cpar[i] < 0 ? (BlockIndex*)0 : &b[cpar[i]];
    b[i].height = cpar[i] < 0 ? base : b[cpar[i]].height + 1;
  }
}
// the chain of `tip` from height `start` (what Chain(start, tip) holds), written directly
static void fill(Chain& c, BlockIndex* b, int tip) {
  if (tip < 0 || b[tip].height < c.startHeight_) return;
  c.chain.resize((size_t)(b[tip].height - c.startHeight_ + 1));
  for (BlockIndex* p = &b[tip]; p != 0 && p->height >= c.startHeight_; p = p->pprev) c.chain[(size_t)(p->height - c.startHeight_)] = p;
}
// out = {size, entry gi, tip, chainHeight, operator[](hq), contains(b[gq]), first, next(b[gq]), empty, tip after disconnectTip}
void w_chain_setTip(int32_t base, int32_t start, int oldtip, int newtip, int gi, int32_t hq, int gq, int32_t* out) {
  BlockIndex b[NB];
  build(b, base);
  Chain c(start);
  fill(c, b, oldtip);
  c.setTip(newtip < 0 ? (BlockIndex*)0 : &b[newtip]);
  out[0] = (int32_t)c.size();
  out[1] = (gi >= 0 && (size_t)gi < c.size()) ? idx_of(b, c.chain[(size_t)gi]) : -2;
  out[2] = idx_of(b, c.tip());
  out[3] = c.chainHeight();
  out[4] = idx_of(b, c[hq]);
  out[5] = c.contains(&b[gq]) ? 1 : 0;
  out[6] = idx_of(b, c.first());
  out[7] = idx_of(b, c.next(&b[gq]));
  out[8] = c.empty() ? 1 : 0;
  __CPROVER_assert(!c.contains((BlockIndex*)0), "contains(nullptr) is false");
  if (!c.empty()) c.disconnectTip();
  out[9] = idx_of(b, c.tip());
}
void h_chain_setTip() { w_chain_setTip(nondet_int(), nondet_int(), nondet_int(), nondet_int(), nondet_int(), nondet_int(), nondet_int(), (int32_t*)nondet_ptr()); REACH; }

int w_chain_findFork(int32_t base, int32_t start, int tip, int k) {
  BlockIndex b[NB];
  build(b, base);
  Chain c(start);
  fill(c, b, tip);
  return idx_of(b, findFork(c, k < 0 ? (BlockIndex*)0 : &b[k]));
}
void h_chain_findFork() { w_chain_findFork(nondet_int(), nondet_int(), nondet_int(), nondet_int()); REACH; }
}
