/* C07 ("the best chain runs from the root to the tip": Chain holds exactly one block per height, each the parent of the next) and
 * C03 (findFork = the fork point the comparison starts from).
 * Tree of 5 blocks: block i has parent PAR(i) < i; the shape (P2, P3, P4) is the harness parameter - one harness per shape, all 24
 * shapes; the root has height base (symbolic), heights follow parents. */
#include <stddef.h>
#include <stdint.h>
#define RET __CPROVER_return_value
#define NB 5
/* SHAPE = 100*P2 + 10*P3 + P4 */
#define P2 (SHAPE / 100)
#define P3 ((SHAPE / 10) % 10)
#define P4 (SHAPE % 10)
#define SHAPE_OK (P2 >= 0 && P2 < 2 && P3 >= 0 && P3 < 3 && P4 >= 0 && P4 < 4)
#define PAR(i) ((i) == 1 ? 0 : (i) == 2 ? P2 : (i) == 3 ? P3 : (i) == 4 ? P4 : -1)
#define D2 (1 + (P2 == 0 ? 0 : 1))
#define D3 (1 + (P3 == 0 ? 0 : P3 == 1 ? 1 : D2))
#define D4 (1 + (P4 == 0 ? 0 : P4 == 1 ? 1 : P4 == 2 ? D2 : D3))
#define DEPTH(i) ((i) == 1 ? 1 : (i) == 2 ? D2 : (i) == 3 ? D3 : (i) == 4 ? D4 : 0)
#define HT(i) (base + DEPTH(i))
/* k-th ancestor (index or -1) */
#define A1(i) PAR(i)
#define A2(i) PAR(PAR(i))
#define A3(i) PAR(PAR(PAR(i)))
#define A4(i) PAR(PAR(PAR(PAR(i))))
/* ancestor-or-self of block i (>= 0) at height ht, -1 if none */
#define ANC(i, ht) ((i) < 0 ? -1 : HT(i) - (ht) == 0 ? (i) : HT(i) - (ht) == 1 ? A1(i) : HT(i) - (ht) == 2 ? A2(i) : HT(i) - (ht) == 3 ? A3(i) : HT(i) - (ht) == 4 ? A4(i) : -1)
/* the chain of tip t from height s is non-empty */
#define NONEMPTY(t, s) ((t) >= 0 && HT(t) >= (s))
/* block at height ht in the chain (t, s): -1 outside [s, height(t)] */
#define AT(t, s, ht) ((!NONEMPTY(t, s) || (ht) < (s)) ? -1 : ANC(t, ht))
#define IN(t, s, i) ((i) >= 0 && AT(t, s, HT(i)) == (i))
#define ARGS_OK (SHAPE_OK && base >= 0 && base <= 1000000 && start >= base - 1 && start <= base + 4 && start >= 0)
void w_chain_setTip_c(int32_t base, int32_t start, int oldtip, int newtip, int gi, int32_t hq, int gq, int32_t* out)
__CPROVER_requires(__CPROVER_is_fresh(out, 10 * 4) && ARGS_OK)
__CPROVER_requires(oldtip >= -1 && oldtip < NB && newtip >= -1 && newtip < NB && gi >= 0 && gi < NB + 1 && gq >= 0 && gq < NB && hq >= -2 && hq <= base + 7)
__CPROVER_assigns(__CPROVER_object_whole(out))
/* size: one slot per height from start to the tip; empty if there is no tip or it lies below start */
__CPROVER_ensures(out[0] == (NONEMPTY(newtip, start) ? HT(newtip) - start + 1 : 0))
__CPROVER_ensures(out[8] == (NONEMPTY(newtip, start) ? 0 : 1))
/* every slot holds THE ancestor of the new tip at that height (nothing of the old chain survives above the fork) */
__CPROVER_ensures(gi >= out[0] ? out[1] == -2 : out[1] == ANC(newtip, start + gi))
__CPROVER_ensures(out[2] == (NONEMPTY(newtip, start) ? newtip : -1))
__CPROVER_ensures(!NONEMPTY(newtip, start) || out[3] == HT(newtip))
/* lookups */
__CPROVER_ensures(out[4] == AT(newtip, start, hq))
__CPROVER_ensures(out[5] == (IN(newtip, start, gq) ? 1 : 0))
__CPROVER_ensures(out[6] == (NONEMPTY(newtip, start) ? ANC(newtip, start) : -1))
__CPROVER_ensures(out[7] == (IN(newtip, start, gq) ? AT(newtip, start, HT(gq) + 1) : -1))
/* disconnectTip: the tip's parent becomes the tip (or the chain becomes empty) */
__CPROVER_ensures(out[9] == ((NONEMPTY(newtip, start) && HT(newtip) > start) ? A1(newtip) : -1));

/* findFork(chain, k): the highest ancestor-or-self of k that is in the chain; none if the chain is empty or k is null */
int w_chain_findFork_c(int32_t base, int32_t start, int tip, int k)
__CPROVER_requires(ARGS_OK && tip >= -1 && tip < NB && k >= -1 && k < NB)
__CPROVER_assigns()
__CPROVER_ensures(RET == ((k < 0 || !NONEMPTY(tip, start)) ? -1 :
   IN(tip, start, k) ? k : IN(tip, start, A1(k)) ? A1(k) : IN(tip, start, A2(k)) ? A2(k) : IN(tip, start, A3(k)) ? A3(k) : IN(tip, start, A4(k)) ? A4(k) : -1));
