// C07 / C03: the Chain container (include/veriblock/pop/blockchain/chain.hpp, the template instantiated textually for one BlockIndex
// type) and findFork, over a BlockIndex shell that carries pprev/height and the real getHeight/isRoot/getPrev/getAncestor members
// (slices shared with unit blockindex).
#include <cstdint>
#include <vector>
#include <veriblock/pop/assert.hpp>
namespace altintegration {
struct BlockIndex {
  typedef int32_t height_t;
  BlockIndex* pprev;
  height_t height;
#include "slices/isRoot.inc"
#include "slices/getHeight.inc"
#include "slices/getPrev.inc"
#include "slices/getAncestor.inc"
};
// the alias declarations at the top of the real class (dropped by the slice rules), for the instantiation Chain<BlockIndex>
typedef BlockIndex index_t;
typedef int32_t height_t;
typedef std::vector<index_t*> storage_t;
#include "slices/Chain.inc"
;
#include "slices/findFork.inc"
}  // namespace altintegration
