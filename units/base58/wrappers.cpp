#include "prelude.hpp"
using namespace altintegration;
#define REACH __CPROVER_assert(0, "REACH: harness end is reachable (expected to fail)")
#ifndef SMAX
#define SMAX 4
#endif
extern "C" {
int nondet_int();
void* nondet_ptr();
// txt: SMAX+1 bytes, txt[len] == 0 with len <= SMAX the first NUL; out: {n, b0..b7}
int w_d58(const char* txt, size_t max_ret_len, uint8_t* out) {
  std::vector<unsigned char> v;
  ValidationState st;
  bool ok = DecodeBase58(txt, v, max_ret_len, st);
  __CPROVER_assert(ok == st.IsValid(), "verdict agrees with the ValidationState");
  out[0] = (uint8_t)v.size();
  for (int i = 0; i < 8; i++) out[1 + i] = (size_t)i < v.size() ? v.data()[i] : 0;
  return ok ? 1 : 0;
}
void h_d58() { w_d58((const char*)nondet_ptr(), (size_t)nondet_int(), (uint8_t*)nondet_ptr()); REACH; }
}
