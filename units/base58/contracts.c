/* C18 ("base58 ... reject every malformed text", decode to the bytes the text encodes) and C06 (no read past the terminator). */
#include <stddef.h>
#include <stdint.h>
#define RET __CPROVER_return_value
#ifndef SMAX
#define SMAX 4
#endif
#define SP(c) ((c) == ' ' || (c) == '\f' || (c) == '\n' || (c) == '\r' || (c) == '\t' || (c) == '\v')
/* digit value of a base58 character, -1 outside the alphabet "123456789ABCDEFGHJKLMNPQRSTUVWXYZabcdefghijkmnopqrstuvwxyz" */
#define D58(c) ((c) >= '1' && (c) <= '9' ? (c) - '1' : (c) >= 'A' && (c) <= 'H' ? (c) - 'A' + 9 : (c) >= 'J' && (c) <= 'N' ? (c) - 'J' + 17 : (c) >= 'P' && (c) <= 'Z' ? (c) - 'P' + 22 : \
                (c) >= 'a' && (c) <= 'k' ? (c) - 'a' + 33 : (c) >= 'm' && (c) <= 'z' ? (c) - 'm' + 44 : -1)
#define LEN (txt[0] == 0 ? 0 : txt[1] == 0 ? 1 : txt[2] == 0 ? 2 : txt[3] == 0 ? 3 : 4)
#define BADCH(i) ((i) < LEN && !SP(txt[i]) && D58(txt[i]) < 0)
int w_d58_c(const char* txt, size_t max_ret_len, uint8_t* out)
__CPROVER_requires(__CPROVER_is_fresh(txt, SMAX + 1) && __CPROVER_is_fresh(out, 9) && txt[SMAX] == 0 && max_ret_len <= 8)
__CPROVER_assigns(__CPROVER_object_whole(out))
/* a character that is neither white space nor in the alphabet: rejected */
__CPROVER_ensures(!(BADCH(0) || BADCH(1) || BADCH(2) || BADCH(3)) || RET == 0)
/* one-character texts: '1' is a zero byte, any other digit d is the byte d */
__CPROVER_ensures(!(LEN == 1 && D58(txt[0]) >= 0 && max_ret_len >= 1) || (RET == 1 && out[0] == 1 && out[1] == (uint8_t)D58(txt[0])))
/* two digits without a leading '1': value 58*d0 + d1 in big endian (one or two bytes) */
#define V2 (58 * D58(txt[0]) + D58(txt[1]))
#define TWO_OK (V2 < 256 ? (out[0] == 1 && out[1] == (uint8_t)V2) : (out[0] == 2 && out[1] == (uint8_t)(V2 >> 8) && out[2] == (uint8_t)V2))
__CPROVER_ensures(!(LEN == 2 && D58(txt[0]) > 0 && D58(txt[1]) >= 0 && max_ret_len >= 2) || (RET == 1 && TWO_OK))
/* the empty text decodes to the empty byte string */
__CPROVER_ensures(LEN != 0 || (RET == 1 && out[0] == 0))
/* accepted output never exceeds the limit */
__CPROVER_ensures(RET == 0 || out[0] <= max_ret_len);
