// C18 / C06 (base58 text form): DecodeBase58(const char*, ...) with its 256-entry map and IsSpace, sliced from src/pop/base58.cpp /
// strutil.hpp. The text is a NUL-terminated C string of at most SMAX characters.
#include <cstdint>
#include <cstddef>
#include <vector>
#include <veriblock/pop/assert.hpp>
#include <veriblock/pop/fmt.hpp>
#include <veriblock/pop/validation_state.hpp>
extern "C" size_t strlen(const char* s);
namespace altintegration {
#include "slices/IsSpace.inc"
#include "slices/mapBase58.inc"
#include "slices/DecodeBase58.inc"
}  // namespace altintegration
