#include "prelude.hpp"
extern "C" { int g_split_verdict; int g_split_calls; size_t g_off; int g_match; size_t g_txlen; }
namespace altintegration {
#include "slices/checkBitcoinTransactionForPoPData.inc"
struct PackedArgs { VbkPopTx* tx; ValidationState* state; };
#include "slices/checkBtcTx_packed.inc"
}
using namespace altintegration;
#define REACH __CPROVER_assert(0, "REACH: harness end is reachable (expected to fail)")
#ifndef TXLEN
#define TXLEN 81
#endif
extern "C" {
uint8_t nondet_u8();
size_t nondet_size_t();
bool nondet_bool();
// pub: the 80 publication bytes (65 header + 15 address); tx: the Bitcoin transaction
int w_checkBtcTx(const uint8_t* pub, const uint8_t* tx, size_t txlen, int split_verdict, int* split_calls) {
  VbkPopTx t;
  for (int i = 0; i < 65; i++) t.publishedBlock.raw[i] = pub[i];
  for (int i = 0; i < 15; i++) t.address.pop[i] = pub[65 + i];
  t.bitcoinTransaction.tx = std::vector<uint8_t>(tx, tx + txlen);
  g_split_verdict = split_verdict != 0 ? 1 : 0;
  g_split_calls = 0;
  ValidationState st;
  bool ok = checkBitcoinTransactionForPoPData(t, st);
  __CPROVER_assert(ok == st.IsValid(), "result false <=> ValidationState invalid");
  *split_calls = g_split_calls;
  return ok;
}
void h_checkBtcTx() {
  uint8_t pub[80];
  uint8_t tx[TXLEN];
  for (int i = 0; i < 80; i++) pub[i] = nondet_u8();
  for (int i = 0; i < TXLEN; i++) tx[i] = nondet_u8();
  int calls;
  w_checkBtcTx(pub, tx, TXLEN, nondet_bool(), &calls);
  REACH;
}

#ifndef TXMAX
#define TXMAX 100
#endif
// completeness for every transaction length (outer search loop closed by a loop contract, see loops.json):
// goff is a ghost offset; g_match says whether the 80 publication bytes occur at goff
int w_checkBtcTx_any(const uint8_t* pub, const uint8_t* tx, size_t txlen, size_t goff, int split_verdict) {
  VbkPopTx t;
  for (int i = 0; i < 65; i++) t.publishedBlock.raw[i] = pub[i];
  for (int i = 0; i < 15; i++) t.address.pop[i] = pub[65 + i];
  t.bitcoinTransaction.tx = std::vector<uint8_t>(tx, tx + txlen);
  g_split_verdict = split_verdict != 0 ? 1 : 0;
  g_split_calls = 0;
  g_off = goff;
  g_txlen = txlen;   // ghost copy of the transaction length for the loop invariant
  g_match = 0;
  if (goff + 80 <= txlen) {
    g_match = 1;
    for (size_t k = 0; k < 80; k++) if (tx[goff + k] != pub[k]) g_match = 0;
  }
  ValidationState st;
  PackedArgs pa; pa.tx = &t; pa.state = &st;
  bool ok = checkBitcoinTransactionForPoPData_packed(pa);
  __CPROVER_assert(ok == st.IsValid(), "result false <=> ValidationState invalid");
  return ok;
}
void h_checkBtcTx_any() {
  uint8_t pub[80];
  uint8_t tx[TXMAX];
  for (int i = 0; i < 80; i++) pub[i] = nondet_u8();
  for (int i = 0; i < TXMAX; i++) tx[i] = nondet_u8();
  w_checkBtcTx_any(pub, tx, nondet_size_t(), nondet_size_t(), nondet_bool());
  REACH;
}
}
