#include "prelude.hpp"
extern "C" { int g_split_verdict; int g_split_calls; }
namespace altintegration {
#include "slices/checkBitcoinTransactionForPoPData.inc"
}
using namespace altintegration;
#define REACH __CPROVER_assert(0, "REACH: harness end is reachable (expected to fail)")
#ifndef TXLEN
#define TXLEN 81
#endif
extern "C" {
uint8_t nondet_u8();
bool nondet_bool();
// pub: the 80 publication bytes (65 header + 15 address); tx: the Bitcoin transaction
int w_checkBtcTx(const uint8_t* pub, const uint8_t* tx, size_t txlen, int split_verdict, int* split_calls) {
  VbkPopTx t;
  for (int i = 0; i < 65; i++) t.publishedBlock.raw[i] = pub[i];
  for (int i = 0; i < 15; i++) t.address.pop[i] = pub[65 + i];
  t.bitcoinTransaction.tx = std::vector<uint8_t>(tx, tx + txlen);
  g_split_verdict = split_verdict != 0 ? 1 : 0;
  g_split_calls = 0;
  ValidationState st;
  bool ok = checkBitcoinTransactionForPoPData(t, st);
  __CPROVER_assert(ok == st.IsValid(), "result false <=> ValidationState invalid");
  *split_calls = g_split_calls;
  return ok;
}
void h_checkBtcTx() {
  uint8_t pub[80];
  uint8_t tx[TXLEN];
  for (int i = 0; i < 80; i++) pub[i] = nondet_u8();
  for (int i = 0; i < TXLEN; i++) tx[i] = nondet_u8();
  int calls;
  w_checkBtcTx(pub, tx, TXLEN, nondet_bool(), &calls);
  REACH;
}
}
