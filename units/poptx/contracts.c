/* C05-U1: checkBitcoinTransactionForPoPData.  Postcondition taken from the property statement:
 *   accepted  ==>  the transaction embeds the 80 publication bytes contiguously, or containsSplit accepted;
 *   a contiguous embedding at any offset  ==>  accepted.
 * spec_contig is the mathematical "exists offset" written as a pure loop (bounded companion: TXLEN is a -D). */
#include <stddef.h>
#include <stdint.h>
#ifndef TXLEN
#define TXLEN 81
#endif
#define RET __CPROVER_return_value
static int spec_match_at(const uint8_t* pub, const uint8_t* tx, size_t off) {
  int m = 1;
  for (size_t k = 0; k < 80; k++) m = m && (tx[off + k] == pub[k]);
  return m;
}
int spec_contig(const uint8_t* pub, const uint8_t* tx, size_t txlen) {
  int any = 0;
  for (size_t off = 0; off + 80 <= txlen; off++) any = any || spec_match_at(pub, tx, off);
  return any;
}
extern int g_split_verdict, g_split_calls;
int w_checkBtcTx_c(const uint8_t* pub, const uint8_t* tx, size_t txlen, int split_verdict, int* split_calls)
__CPROVER_requires(txlen == TXLEN)
__CPROVER_requires(__CPROVER_r_ok(pub, 80) && __CPROVER_r_ok(tx, txlen) && __CPROVER_w_ok(split_calls, sizeof(int)))
__CPROVER_assigns(*split_calls, g_split_verdict, g_split_calls)
__CPROVER_ensures(RET != 0 ==> (spec_contig(pub, tx, txlen) || (split_verdict != 0 && *split_calls == 1)))
__CPROVER_ensures(spec_contig(pub, tx, txlen) ==> RET != 0)
__CPROVER_ensures((RET == 0) ==> (*split_calls == 1 && split_verdict == 0));

/* completeness for EVERY transaction length up to the vector model's capacity: a contiguous embedding at any offset is accepted.
 * goff is a ghost offset; the harness cannot assume where the search looks - the outer search loop is closed by a loop contract
 * (loops.json: while the loop runs, no offset below i matched the ghost embedding, so i <= goff). */
#ifndef TXMAX
#define TXMAX 100
#endif
extern size_t g_off, g_txlen;
extern int g_match;
#define MATCH_AT(pub, tx, o) ((tx)[(o)] == (pub)[0] && (tx)[(o) + 79] == (pub)[79])
int w_checkBtcTx_any_c(const uint8_t* pub, const uint8_t* tx, size_t txlen, size_t goff, int split_verdict)
__CPROVER_requires(txlen <= TXMAX && goff <= TXMAX && __CPROVER_r_ok(pub, 80) && __CPROVER_r_ok(tx, TXMAX))
__CPROVER_assigns(g_split_verdict, g_split_calls, g_off, g_match, g_txlen)
/* g_match is computed by the wrapper as the 80-byte equality at goff (checked here on its two end bytes as a sanity link) */
__CPROVER_ensures((g_match != 0) ==> (goff + 80 <= txlen && MATCH_AT(pub, tx, goff)))
__CPROVER_ensures((g_match != 0) ==> RET != 0);
