/* C05-U1: checkBitcoinTransactionForPoPData.  Postcondition taken from the property statement:
 *   accepted  ==>  the transaction embeds the 80 publication bytes contiguously, or containsSplit accepted;
 *   a contiguous embedding at any offset  ==>  accepted.
 * spec_contig is the mathematical "exists offset" written as a pure loop (bounded companion: TXLEN is a -D). */
#include <stddef.h>
#include <stdint.h>
#ifndef TXLEN
#define TXLEN 81
#endif
#define RET __CPROVER_return_value
static int spec_match_at(const uint8_t* pub, const uint8_t* tx, size_t off) {
  int m = 1;
  for (size_t k = 0; k < 80; k++) m = m && (tx[off + k] == pub[k]);
  return m;
}
int spec_contig(const uint8_t* pub, const uint8_t* tx, size_t txlen) {
  int any = 0;
  for (size_t off = 0; off + 80 <= txlen; off++) any = any || spec_match_at(pub, tx, off);
  return any;
}
extern int g_split_verdict, g_split_calls;
int w_checkBtcTx_c(const uint8_t* pub, const uint8_t* tx, size_t txlen, int split_verdict, int* split_calls)
__CPROVER_requires(txlen == TXLEN)
__CPROVER_requires(__CPROVER_r_ok(pub, 80) && __CPROVER_r_ok(tx, txlen) && __CPROVER_w_ok(split_calls, sizeof(int)))
__CPROVER_assigns(*split_calls, g_split_verdict, g_split_calls)
__CPROVER_ensures(RET != 0 ==> (spec_contig(pub, tx, txlen) || (split_verdict != 0 && *split_calls == 1)))
__CPROVER_ensures(spec_contig(pub, tx, txlen) ==> RET != 0)
__CPROVER_ensures((RET == 0) ==> (*split_calls == 1 && split_verdict == 0));
