// native replay for unit poptx: runs the REAL checkBitcoinTransactionForPoPData on the verifier's counterexample.
// The 15 address bytes of a real Address cannot be chosen freely (base58 + checksum), so the counterexample's
// equality pattern between transaction bytes and publication bytes is transferred onto the publication bytes of a
// real VbkPopTx; the postcondition is then evaluated natively on the transferred input (sound: REPRODUCED is printed
// only if the real function violates the postcondition on a concrete input).
#include <cstdio>
#include <veriblock/pop/entities/vbkpoptx.hpp>
#include <veriblock/pop/stateless_validation.hpp>
#include <veriblock/pop/write_stream.hpp>
#include "replay_inputs.hpp"
using namespace altintegration;
static bool spec_contig(const std::vector<uint8_t>& pub, const std::vector<uint8_t>& tx) {
  if (tx.size() < pub.size()) return false;
  for (size_t off = 0; off + pub.size() <= tx.size(); off++) {
    bool m = true;
    for (size_t k = 0; k < pub.size(); k++) m = m && tx[off + k] == pub[k];
    if (m) return true;
  }
  return false;
}
int main(int argc, char** argv) {
  ReplayInputs in;
  if (argc < 2 || !in.load(argv[1])) { printf("NOT-REPRODUCED: cannot read inputs\n"); return 2; }
  std::vector<uint8_t> pub = in.bytes("pub"), tx = in.bytes("tx");
  if (pub.size() != 80 || tx.size() < 80) { printf("NOT-REPRODUCED: counterexample has no pub/tx arrays\n"); return 2; }
  VbkPopTx t;
  ValidationState st;
  ReadStream rs(pub.data(), 65);
  if (!DeserializeFromRaw(rs, t.publishedBlock, st)) { printf("NOT-REPRODUCED: header bytes do not decode\n"); return 2; }
  if (!t.address.fromString("V5Ujv72h4jEBcKnALGc4fKqs6CDAPX", st)) { printf("NOT-REPRODUCED: address\n"); return 2; }
  WriteStream w;
  t.publishedBlock.toRaw(w);
  t.address.getPopBytes(w);
  std::vector<uint8_t> pub2 = w.data();
  // a byte value that does not occur in pub2
  int freeb = -1;
  for (int b = 0; b < 256 && freeb < 0; b++) { bool used = false; for (auto x : pub2) used = used || x == b; if (!used) freeb = b; }
  std::vector<uint8_t> tx2(tx.size());
  for (size_t p = 0; p < tx.size(); p++) {
    int q = -1;
    // prefer the aligned candidates of the counterexample (same relative offset), then any equal byte
    for (size_t k = 0; k < 80 && q < 0; k++) if (tx[p] == pub[k] && p >= k && p - k <= tx.size() - 80) q = (int)k;
    for (size_t k = 0; k < 80 && q < 0; k++) if (tx[p] == pub[k]) q = (int)k;
    tx2[p] = q >= 0 ? pub2[q] : (uint8_t)freeb;
  }
  t.bitcoinTransaction.tx = tx2;
  ValidationState s2;
  bool ok = checkBitcoinTransactionForPoPData(t, s2);
  bool contig = spec_contig(pub2, tx2);
  ValidationState s3;
  bool split = containsSplit(pub2, tx2, s3);
  printf("real checkBitcoinTransactionForPoPData=%d contiguous=%d containsSplit=%d\n", ok, contig, split);
  printf("tx=");
  for (auto b : tx2) printf("%02x", b);
  printf("\npub=");
  for (auto b : pub2) printf("%02x", b);
  printf("\n");
  if ((ok && !contig && !split) || (contig && !ok)) { printf("REPRODUCED: accepted <=> (contiguous or split) violated on the real code\n"); return 1; }
  printf("NOT-REPRODUCED\n");
  return 0;
}
