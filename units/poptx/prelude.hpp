// shells for the entities checkBitcoinTransactionForPoPData touches: toRaw/getPopBytes append exactly 65 / 15 bytes
// (their real encoders are under contract in the serde units); containsSplit is abstracted here (own unit: split).
#include <cstdint>
#include <vector>
#include <string>
#include <algorithm>
#include <veriblock/pop/consts.hpp>
#include <veriblock/pop/validation_state.hpp>
#include <veriblock/pop/slice.hpp>
#include <veriblock/pop/write_stream.hpp>
#include "src/pop/write_stream.cpp"
extern "C" int g_split_verdict;   // arbitrary verdict of the abstracted containsSplit
extern "C" int g_split_calls;
namespace altintegration {
struct VbkBlockShell {
  uint8_t raw[65];
  void toRaw(WriteStream& s) const { s.write(raw, 65); }
};
struct AddressShell {
  uint8_t pop[15];
  void getPopBytes(WriteStream& s) const { s.write(pop, 15); }
};
struct BtcTx { std::vector<uint8_t> tx; };
struct VbkPopTx { VbkBlockShell publishedBlock; AddressShell address; BtcTx bitcoinTransaction; };
inline bool containsSplit(const std::vector<uint8_t>& pop_data, const std::vector<uint8_t>& btcTx_data, ValidationState& state) {
  g_split_calls++;
  if (!g_split_verdict) return state.Invalid("abstract-contains-split");
  return true;
}
}  // namespace altintegration
