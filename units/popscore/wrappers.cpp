#include "prelude.hpp"
using namespace altintegration;
using namespace altintegration::internal;
#define REACH __CPROVER_assert(0, "REACH: harness end is reachable (expected to fail)")
#ifndef KI
#define KI 5
#endif
extern "C" {
int nondet_int();
long nondet_long();
size_t nondet_size_t();
void* nondet_ptr();
int w_violates(int pub, int base, int delay) { Cfg c; c.delay = delay; c.tn = 0; return publicationViolatesFinality(pub, base, c); }
void h_violates() { w_violates(nondet_int(), nondet_int(), nondet_int()); REACH; }
int w_score(long rel, const int* table, size_t tn) {
  Cfg c; c.delay = 0; c.tn = tn;
  for (size_t i = 0; i < TMAX; i++) c.table[i] = table[i];
  return getConsensusScoreFromRelativeBlockStartingAtZero(rel, c);
}
void h_score() { w_score(nondet_long(), (const int*)nondet_ptr(), nondet_size_t()); REACH; }

static void mk(View& v, Cfg* c, int first, int n, const int* pubs) {
  v.cfg = c; v.ki = KI; v.first = first; v.n = n; v.queries = 0;
  for (int i = 0; i < KMAX; i++) v.pubs[i] = pubs[i];
}
// cfg = {delay, tn, table[0..TMAX)}; returns cmp(a,b); *ba = cmp(b,a) computed on fresh views (swap_too != 0)
int w_cmp(int first, int nA, int nB, const int* pubsA, const int* pubsB, const int* cfg, int swap_too, int* ba) {
  Cfg c;
  c.delay = cfg[0]; c.tn = (size_t)cfg[1];
  for (int i = 0; i < TMAX; i++) c.table[i] = cfg[2 + i];
  View a, b;
  mk(a, &c, first, nA, pubsA);
  mk(b, &c, first, nB, pubsB);
  int ab = comparePopScoreImpl(a, b);
  *ba = 0;
  if (swap_too) {
    View a2, b2;
    mk(a2, &c, first, nA, pubsA);
    mk(b2, &c, first, nB, pubsB);
    *ba = comparePopScoreImpl(b2, a2);
  }
  return ab;
}
void h_cmp() { w_cmp(nondet_int(), nondet_int(), nondet_int(), (const int*)nondet_ptr(), (const int*)nondet_ptr(), (const int*)nondet_ptr(), nondet_int(), (int*)nondet_ptr()); REACH; }

// the view of a chain slice that starts at the fork point (height fork_h) and ends at the tip (height tip_h), built as the
// ReducedPublicationView constructor does: first = firstKeystoneAfter(fork_h), last = highestKeystoneAtOrBefore(tip_h)
int w_view_empty(int fork_h, int tip_h) {
  RpvShell v;
  v.keystoneInterval = KI;
  v.firstKeystoneHeight = firstKeystoneAfter(fork_h, KI);
  v.lastKeystoneHeight = highestKeystoneAtOrBefore(tip_h, KI);
  return v.empty();
}
void h_view_empty() { w_view_empty(nondet_int(), nondet_int()); REACH; }
}
