/* C03: keystone-by-keystone scoring. spec_cmp() is the reference scorer written from the protocol description, NOT from the loop:
 * it walks the keystone indices 0,1,2,.. with an explicit state (score, out-of-finality flag, previous publication) per chain,
 * has no early exits, and is only compared BY SIGN with the implementation (the property is about the sign of the verdict).
 * Conventions shared with the library: NO_ENDORSEMENT = INT32_MAX marks "keystone in range but never published". */
#include <stddef.h>
#include <stdint.h>
#define RET __CPROVER_return_value
#ifndef KMAX
#define KMAX 3
#endif
#ifndef TMAX
#define TMAX 4
#endif
#ifndef KI
#define KI 5
#endif
#define NOE 2147483647

int w_violates_c(int pub, int base, int delay)
__CPROVER_requires(pub >= 0 && base >= 0)
__CPROVER_assigns()
__CPROVER_ensures((RET != 0) == ((long)pub - (long)base > (long)delay));

int w_score_c(long rel, const int* table, size_t tn)
__CPROVER_requires(__CPROVER_is_fresh(table, TMAX * sizeof(int)) && tn <= TMAX)
__CPROVER_assigns()
__CPROVER_ensures(RET == ((rel >= 0 && (size_t)rel < tn) ? table[rel] : 0));

int spec_tbl(const int* cfg, long rel) { return (rel >= 0 && rel < cfg[1]) ? cfg[2 + rel] : 0; }
/* sign of the protocol's verdict for chains a, b */
int spec_cmp(int nA, int nB, const int* pa, const int* pb, const int* cfg) {
  if (nA == 0 && nB == 0) return 0;
  if (nA == 0) return -1;
  if (nB == 0) return 1;
  long delay = cfg[0];
  long sa = 0, sb = 0, prevA = NOE, prevB = NOE;
  int outA = 0, outB = 0;
  int n = nA > nB ? nA : nB;
  for (int k = 0; k < KMAX; k++) {
    if (k >= n || (outA && outB)) break;
    /* a chain takes part in keystone k if it is still inside finality and its range reaches k */
    int hasA = !outA && k < nA, hasB = !outB && k < nB;
    long a = hasA ? pa[k] : NOE, b = hasB ? pb[k] : NOE;
    /* over-long gap to the chain's own previous publication */
    if (hasA && a - prevA > delay) { outA = 1; hasA = 0; }
    prevA = a;
    if (hasB && b - prevB > delay) { outB = 1; hasB = 0; }
    prevB = b;
    if (!hasA && !hasB) continue;
    if (!hasA) { sb += spec_tbl(cfg, 0); outA = 1; continue; }   /* a missing keystone: the other chain scores best, this one is out */
    if (!hasB) { sa += spec_tbl(cfg, 0); outB = 1; continue; }
    long m = a < b ? a : b;
    sa += spec_tbl(cfg, a - m);
    sb += spec_tbl(cfg, b - m);
    if (a - b > delay) outA = 1;    /* way behind the other chain */
    if (b - a > delay) outB = 1;
  }
  return sa > sb ? 1 : sa < sb ? -1 : 0;
}
#define SIGN(x) ((x) > 0 ? 1 : (x) < 0 ? -1 : 0)
#define PUBOK(p) (((p) >= 0 && (p) <= 65535) || (p) == NOE)
int w_cmp_c(int first, int nA, int nB, const int* pubsA, const int* pubsB, const int* cfg, int swap_too, int* ba)
__CPROVER_requires(__CPROVER_is_fresh(pubsA, KMAX * sizeof(int)) && __CPROVER_is_fresh(pubsB, KMAX * sizeof(int)) &&
                   __CPROVER_is_fresh(cfg, (2 + TMAX) * sizeof(int)) && __CPROVER_is_fresh(ba, sizeof(int)))
__CPROVER_requires(first >= 0 && first <= 65535 * KI && first % KI == 0 && nA >= 0 && nA <= KMAX && nB >= 0 && nB <= KMAX)
/* configuration well-formedness: non-empty table of non-negative weights, non-negative finality delay */
__CPROVER_requires(cfg[0] >= 0 && cfg[0] <= 65535 && cfg[1] >= 1 && cfg[1] <= TMAX)
__CPROVER_requires(cfg[2] >= 0 && cfg[2] <= 32768 && cfg[3] >= 0 && cfg[3] <= 32768 && cfg[4] >= 0 && cfg[4] <= 32768 && cfg[5] >= 0 && cfg[5] <= 32768)
__CPROVER_requires(PUBOK(pubsA[0]) && PUBOK(pubsA[1]) && PUBOK(pubsB[0]) && PUBOK(pubsB[1]))
#if KMAX > 2
__CPROVER_requires(PUBOK(pubsA[2]) && PUBOK(pubsB[2]))
#endif
#if KMAX > 3
__CPROVER_requires(PUBOK(pubsA[3]) && PUBOK(pubsB[3]))
#endif
__CPROVER_assigns(*ba)
#if CMP_MODE == 1
__CPROVER_requires(swap_too == 0)
/* the verdict's sign is the protocol's */
__CPROVER_ensures(SIGN(RET) == spec_cmp(nA, nB, pubsA, pubsB, cfg))
#else
__CPROVER_requires(swap_too != 0)
/* antisymmetric when the roles are swapped */
__CPROVER_ensures(SIGN(*ba) == -SIGN(RET))
#endif
/* 0 when neither chain crosses a keystone boundary; negative iff only the first is empty */
__CPROVER_ensures((nA == 0 && nB == 0) ==> RET == 0)
__CPROVER_ensures((nA == 0 && nB > 0) ==> RET < 0);

/* "0 when neither chain crosses a keystone boundary": a chain's publication view is empty  <=>  no keystone k with fork < k <= tip,
 * i.e. the greatest multiple of KI at or below the tip is not above the fork point (the same division-free form as unit keystone) */
int w_view_empty_c(int fork_h, int tip_h)
__CPROVER_requires(fork_h >= 0 && tip_h >= fork_h && tip_h <= 2147483647 - KI)
__CPROVER_assigns()
__CPROVER_ensures((RET != 0) == !(tip_h - tip_h % KI > fork_h));
