// C03-U2/U3: internal::publicationViolatesFinality, getConsensusScoreFromRelativeBlockStartingAtZero and comparePopScoreImpl sliced from
// fork_resolution.hpp and instantiated on a harness publication view (the property's observe_at names exactly this instantiation).
// The view answers like ReducedPublicationView: first/last keystone, nextKeystoneAfter (real keystone_util assertion), getKeystone(h)
// = nullptr outside [first,last], otherwise a KeystoneContext whose publication height is an arbitrary value or NO_ENDORSEMENT.
#include <cstdint>
#include <vector>
#include <algorithm>
#include <veriblock/pop/consts.hpp>
#include <veriblock/pop/assert.hpp>
#include "src/pop/keystone_util.cpp"
#ifndef KMAX
#define KMAX 3
#endif
#ifndef TMAX
#define TMAX 4
#endif
#define VSTD_INT32_MAX_ 2147483647
namespace altintegration {
namespace internal {
#include "slices/KeystoneContext.inc"
;
struct TableView {   // std::vector<int> getForkResolutionLookUpTable(): size() and operator[]
  const int* d;
  size_t n;
  size_t size() const { return n; }
  int operator[](size_t i) const { __CPROVER_assert(i < n, "lookup table index in range"); return d[i]; }
};
struct Cfg {
  int delay;
  int table[TMAX];
  size_t tn;
  int getFinalityDelay() const { return delay; }
  TableView getForkResolutionLookUpTable() const { TableView t; t.d = table; t.n = tn; return t; }
};
#include "slices/NO_ENDORSEMENT.inc"
#include "slices/publicationViolatesFinality.inc"
#include "slices/getConsensusScore.inc"
struct View {
  Cfg* cfg;
  int ki, first, n;  // n keystones: first, first+ki, ... ; n == 0 <=> empty
  int pubs[KMAX];
  KeystoneContext currentKeystoneContext;
  unsigned queries;  // ghost
  Cfg& getConfig() { return *cfg; }
  bool empty() const { return n == 0; }
  int firstKeystone() const { return first; }
  int lastKeystone() const { return first + (n - 1) * ki; }
  int nextKeystoneAfter(int keystoneHeight) const {
    VBK_ASSERT(isKeystone(keystoneHeight, ki));
    return keystoneHeight + ki;
  }
  const KeystoneContext* getKeystone(int blockHeight) {
    VBK_ASSERT_MSG(isKeystone(blockHeight, ki), "getKeystone can not be called with a non-keystone block height");
    if (blockHeight < firstKeystone() || blockHeight > lastKeystone()) return nullptr;
    queries++;
    currentKeystoneContext.blockHeight = blockHeight;
    currentKeystoneContext.firstBlockPublicationHeight = pubs[(blockHeight - first) / ki];
    return &currentKeystoneContext;
  }
};
// ReducedPublicationView: the two members that decide emptiness, over the fields its constructor computes
struct RpvShell {
  int keystoneInterval, firstKeystoneHeight, lastKeystoneHeight;
  int firstKeystone() const { return firstKeystoneHeight; }
  int lastKeystone() const { return lastKeystoneHeight; }
#include "slices/rpv_size.inc"
#include "slices/rpv_empty.inc"
};
#include "slices/comparePopScoreImpl.inc"
}  // namespace internal
}  // namespace altintegration
