/* C11 "estimateSize() equals the exact number of bytes toVbkEncoding() produces (the figure used to enforce PopData size limits)" for
 * PopData itself, given that each element writes exactly its own estimateSize() bytes; and the closed form the mempool's
 * CountingContext (unit counting, C12) accounts with:  4 + SUM_t ( 1 + trim_len(n_t) + SUM of the element sizes of type t ). */
#include <stddef.h>
#include <stdint.h>
#define RET __CPROVER_return_value
#define TRIM_LEN(v) ((uint64_t)(v) < (1UL << 8) ? 1 : 2)
#define SBVS(v) ((size_t)1 + TRIM_LEN(v))
#define SUMT(n, a, b) (((n) > 0 ? (a) : 0) + ((n) > 1 ? (b) : 0))
size_t w_popdata_size_c(const size_t* n, const size_t* sz, size_t* written)
__CPROVER_requires(__CPROVER_is_fresh(n, 3 * sizeof(size_t)) && __CPROVER_is_fresh(sz, 6 * sizeof(size_t)) && __CPROVER_is_fresh(written, sizeof(size_t)))
__CPROVER_requires(n[0] <= 1 && n[1] <= 1 && n[2] <= 1 && sz[0] <= 1 && sz[1] <= 1 && sz[2] <= 1 && sz[3] <= 1 && sz[4] <= 1 && sz[5] <= 1)
__CPROVER_assigns(*written)
__CPROVER_ensures(RET == *written)
__CPROVER_ensures(RET == 4 + SBVS(n[0]) + SUMT(n[0], sz[0], sz[1]) + SBVS(n[1]) + SUMT(n[1], sz[2], sz[3]) + SBVS(n[2]) + SUMT(n[2], sz[4], sz[5]));
