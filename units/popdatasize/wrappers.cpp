#include "prelude.hpp"
using namespace altintegration;
#define REACH __CPROVER_assert(0, "REACH: harness end is reachable (expected to fail)")
extern "C" {
size_t nondet_size_t();
void* nondet_ptr();
// n = {#VbkBlocks, #VTBs, #ATVs} (each <= 2); sz = element sizes: [ctx0, ctx1, vtb0, vtb1, atv0, atv1]; returns estimateSize()
size_t w_popdata_size(const size_t* n, const size_t* sz, size_t* written) {
  PopData p;
  p.version = 1;
  for (size_t i = 0; i < n[0] && i < 2; i++) { VbkBlock e; e.sz = sz[i]; p.context.push_back(e); }
  for (size_t i = 0; i < n[1] && i < 2; i++) { VTB e; e.sz = sz[2 + i]; p.vtbs.push_back(e); }
  for (size_t i = 0; i < n[2] && i < 2; i++) { ATV e; e.sz = sz[4 + i]; p.atvs.push_back(e); }
  WriteStream w;
  p.toVbkEncoding(w);
  *written = w.data().size();
  return p.estimateSize();
}
void h_popdata_size() { w_popdata_size((const size_t*)nondet_ptr(), (const size_t*)nondet_ptr(), (size_t*)nondet_ptr()); REACH; }
}
