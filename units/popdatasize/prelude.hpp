// C11-U4 / C12 link: PopData::toVbkEncoding / PopData::estimateSize (src/pop/entities/popdata.cpp) with the container templates of
// serde.hpp (writeContainer, estimateContainerSize, estimateArraySizeOf), over element shells whose toVbkEncoding appends exactly
// estimateSize() bytes (each element type's own "estimateSize == encoded size" is a separate obligation, see unit entities).
#include <cstdint>
#include <vector>
#include <veriblock/pop/assert.hpp>
namespace altintegration { struct VbkBlock; struct VTB; struct ATV; }
#include "../serde/prelude.hpp"
namespace altintegration {
#define ELEM(Name) struct Name { size_t sz; size_t estimateSize() const { return sz; } \
  void toVbkEncoding(WriteStream& s) const { for (size_t i = 0; i < sz; i++) s.writeBE((uint8_t)0xEE); } };
ELEM(VbkBlock) ELEM(VTB) ELEM(ATV)
inline void vstd_force_elem_vectors_() { std::vector<VbkBlock> a; std::vector<VbkBlock> b(a); b = a; std::vector<VTB> c; std::vector<VTB> d(c); d = c; std::vector<ATV> e; std::vector<ATV> f(e); f = e; }
#include "slices/writeContainer.inc"
#include "slices/estimateContainerSize.inc"
#include "slices/estimateArraySizeOf.inc"
struct PopData {   // entities/popdata.hpp: the data members the two functions read
  uint32_t version;
  std::vector<VbkBlock> context;
  std::vector<VTB> vtbs;
  std::vector<ATV> atvs;
  void toVbkEncoding(WriteStream& stream) const;
  size_t estimateSize() const;
};
#include "slices/lam_w_ctx.inc"
#include "slices/lam_w_vtb.inc"
#include "slices/lam_w_atv.inc"
#include "slices/lam_e_ctx.inc"
#include "slices/lam_e_vtb.inc"
#include "slices/lam_e_atv.inc"
#include "slices/popdata_toVbkEncoding.inc"
#include "slices/popdata_estimateSize.inc"
}  // namespace altintegration
