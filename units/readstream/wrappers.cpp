// C06: ReadStream - real header (line-filtered) + the whole real src/pop/read_stream.cpp (3 'return {..}' rules)
#include <cstdint>
#include <vector>
#include <string>
#include <algorithm>
#include "src/pop/read_stream.cpp"
using namespace altintegration;

#define REACH __CPROVER_assert(0, "REACH: harness end is reachable (expected to fail)")
#define CONSISTENT(ok, st) __CPROVER_assert((ok) == (st).IsValid(), "result false <=> ValidationState invalid")

extern "C" {
size_t nondet_size_t();
void* nondet_ptr();

// layout of the C mirror used by contracts.c is checked, not trusted
extern const size_t RS_LAYOUT[5];  // from contracts.c: sizeof/offsetof of the C mirror
void check_layout() {
  __CPROVER_assert(sizeof(ReadStream) == RS_LAYOUT[0], "LAYOUT sizeof(ReadStream) equals the C mirror");
  ReadStream* z = (ReadStream*)0;
  __CPROVER_assert((size_t)&z->m_version == RS_LAYOUT[1] && (size_t)&z->m_Pos == RS_LAYOUT[2] &&
                   (size_t)&z->m_Buffer == RS_LAYOUT[3] && (size_t)&z->m_Size == RS_LAYOUT[4],
                   "LAYOUT offsets of ReadStream members equal the C mirror");
}

int w_rs_read(void* rs, size_t size, uint8_t* out, size_t k) {
  ValidationState st;
  bool ok = ((ReadStream*)rs)->read(size, out, st);
  CONSISTENT(ok, st);
  return ok;
}
void h_rs_read() { check_layout(); w_rs_read(nondet_ptr(), nondet_size_t(), (uint8_t*)nondet_ptr(), nondet_size_t()); REACH; }

int w_rs_readSlice(void* rs, size_t size, const uint8_t** out_ptr, size_t* out_size) {
  ValidationState st;
  Slice<const uint8_t> s;
  bool ok = ((ReadStream*)rs)->readSlice(size, s, st);
  CONSISTENT(ok, st);
  *out_ptr = s.data();
  *out_size = s.size();
  return ok;
}
void h_rs_readSlice() { check_layout(); w_rs_readSlice(nondet_ptr(), nondet_size_t(), (const uint8_t**)nondet_ptr(), (size_t*)nondet_ptr()); REACH; }

#define READ_BE(T, N)                                                          \
  int w_rs_readBE_##N(void* rs, T* t, size_t bytes, size_t k) {                \
    ValidationState st;                                                        \
    bool ok = ((ReadStream*)rs)->readBE(*t, st, bytes);                     \
    CONSISTENT(ok, st);                                                        \
    return ok;                                                                 \
  }                                                                            \
  void h_rs_readBE_##N() { check_layout(); w_rs_readBE_##N(nondet_ptr(), (T*)nondet_ptr(), nondet_size_t(), nondet_size_t()); REACH; } \
  int w_rs_readLE_##N(void* rs, T* t, size_t k) {                              \
    ValidationState st;                                                        \
    bool ok = ((ReadStream*)rs)->readLE(*t, st);                            \
    CONSISTENT(ok, st);                                                        \
    return ok;                                                                 \
  }                                                                            \
  void h_rs_readLE_##N() { check_layout(); w_rs_readLE_##N(nondet_ptr(), (T*)nondet_ptr(), nondet_size_t()); REACH; }
READ_BE(uint8_t, u8)
READ_BE(uint16_t, u16)
READ_BE(uint32_t, u32)
READ_BE(uint64_t, u64)
READ_BE(int16_t, i16)
READ_BE(int32_t, i32)
READ_BE(int64_t, i64)

// observers and cursor operations
size_t w_rs_remaining(void* rs) { return ((ReadStream*)rs)->remaining(); }
void h_rs_remaining() { check_layout(); w_rs_remaining(nondet_ptr()); REACH; }
int w_rs_hasMore(void* rs, size_t n) { return ((ReadStream*)rs)->hasMore(n); }
void h_rs_hasMore() { check_layout(); w_rs_hasMore(nondet_ptr(), nondet_size_t()); REACH; }
void w_rs_setPosition(void* rs, size_t p) { ((ReadStream*)rs)->setPosition(p); }
void h_rs_setPosition() { check_layout(); w_rs_setPosition(nondet_ptr(), nondet_size_t()); REACH; }
void w_rs_reset(void* rs) { ((ReadStream*)rs)->reset(); }
void h_rs_reset() { check_layout(); w_rs_reset(nondet_ptr()); REACH; }
size_t w_rs_position(void* rs) { return ((ReadStream*)rs)->position(); }
void h_rs_position() { check_layout(); w_rs_position(nondet_ptr()); REACH; }
void w_rs_remainingBytes(void* rs, const uint8_t** p, size_t* n) {
  Slice<const uint8_t> s = ((ReadStream*)rs)->remainingBytes();
  *p = s.data(); *n = s.size();
}
void h_rs_remainingBytes() { check_layout(); w_rs_remainingBytes(nondet_ptr(), (const uint8_t**)nondet_ptr(), (size_t*)nondet_ptr()); REACH; }
void w_rs_data(void* rs, const uint8_t** p, size_t* n) {
  Slice<const uint8_t> s = ((ReadStream*)rs)->data();
  *p = s.data(); *n = s.size();
}
void h_rs_data() { check_layout(); w_rs_data(nondet_ptr(), (const uint8_t**)nondet_ptr(), (size_t*)nondet_ptr()); REACH; }
// constructor establishes the invariant
void w_rs_ctor(void* rs, const void* buf, size_t n) { ReadStream tmp(buf, n); *(ReadStream*)rs = tmp; }
void h_rs_ctor() { check_layout(); w_rs_ctor(nondet_ptr(), nondet_ptr(), nondet_size_t()); REACH; }
void w_rs_assertReadSlice(void* rs, size_t size, const uint8_t** p, size_t* n) {
  Slice<const uint8_t> s = ((ReadStream*)rs)->assertReadSlice(size);
  *p = s.data(); *n = s.size();
}
void h_rs_assertReadSlice() { check_layout(); w_rs_assertReadSlice(nondet_ptr(), nondet_size_t(), (const uint8_t**)nondet_ptr(), (size_t*)nondet_ptr()); REACH; }
}
