/* C06: data-structure contract of altintegration::ReadStream.
 * rs_valid(r)  ==  m_Pos <= m_Size  /\  m_Buffer readable for m_Size bytes (is_fresh in requires).
 * Every operation: requires rs_valid, ensures rs_valid, buffer/size/version unchanged, frame = {m_Pos, *out}. */
#include <rs_contract.h>
/* k is a ghost index: the clause on out[k] holds for an arbitrary k, i.e. for all k */
int w_rs_read_c(void* rs, size_t size, uint8_t* out, size_t k)
RS_FRESH(rs)
__CPROVER_requires(size <= MAXBUF && (size == 0 || __CPROVER_is_fresh(out, size)))
__CPROVER_assigns(R(rs)->m_Pos; size != 0: __CPROVER_object_whole(out))
RS_KEEPS(rs)
__CPROVER_ensures((RET != 0) == (OLDREM(rs) >= size))
__CPROVER_ensures(RET != 0 ==> R(rs)->m_Pos == OLDPOS(rs) + size)
__CPROVER_ensures(RET == 0 ==> R(rs)->m_Pos == OLDPOS(rs))
__CPROVER_ensures((RET != 0 && k < size) ==> out[k] == R(rs)->m_Buffer[OLDPOS(rs) + k]);

int w_rs_readSlice_c(void* rs, size_t size, const uint8_t** out_ptr, size_t* out_size)
RS_FRESH(rs)
__CPROVER_requires(__CPROVER_is_fresh(out_ptr, sizeof(*out_ptr)) && __CPROVER_is_fresh(out_size, sizeof(*out_size)))
__CPROVER_assigns(R(rs)->m_Pos, *out_ptr, *out_size)
RS_KEEPS(rs)
__CPROVER_ensures((RET != 0) == (OLDREM(rs) >= size))
__CPROVER_ensures(RET != 0 ==> R(rs)->m_Pos == OLDPOS(rs) + size)
__CPROVER_ensures(RET == 0 ==> R(rs)->m_Pos == OLDPOS(rs))
/* the returned slice lies inside the buffer */
__CPROVER_ensures(RET != 0 ==> (*out_ptr == R(rs)->m_Buffer + OLDPOS(rs) && *out_size == size && OLDPOS(rs) + size <= R(rs)->m_Size));

#define BYTE_BE(t, bytes, k) ((uint8_t)(((uint64_t)(t)) >> (8 * ((bytes)-1 - (k)))))
#define BYTE_LE(t, k) ((uint8_t)(((uint64_t)(t)) >> (8 * (k))))
#define READ_BE_C(T, UT, N)                                                                           \
  int w_rs_readBE_##N##_c(void* rs, T* t, size_t bytes, size_t k)                                     \
  RS_FRESH(rs)                                                                                        \
  __CPROVER_requires(__CPROVER_is_fresh(t, sizeof(T)) && bytes <= sizeof(T))                          \
  __CPROVER_assigns(R(rs)->m_Pos, *t)                                                                 \
  RS_KEEPS(rs)                                                                                        \
  __CPROVER_ensures((RET != 0) == (OLDREM(rs) >= bytes))                                              \
  __CPROVER_ensures(RET != 0 ==> R(rs)->m_Pos == OLDPOS(rs) + bytes)                                 \
  __CPROVER_ensures(RET == 0 ==> (R(rs)->m_Pos == OLDPOS(rs) && *t == __CPROVER_old(*t)))            \
  __CPROVER_ensures((RET != 0 && k < bytes) ==> BYTE_BE((UT)*t, bytes, k) == R(rs)->m_Buffer[OLDPOS(rs) + k]) \
  __CPROVER_ensures((RET != 0 && bytes < sizeof(T)) ==> (((uint64_t)(UT)*t) >> (8 * bytes)) == 0);   \
  int w_rs_readLE_##N##_c(void* rs, T* t, size_t k)                                                   \
  RS_FRESH(rs)                                                                                        \
  __CPROVER_requires(__CPROVER_is_fresh(t, sizeof(T)))                                                \
  __CPROVER_assigns(R(rs)->m_Pos, *t)                                                                 \
  RS_KEEPS(rs)                                                                                        \
  __CPROVER_ensures((RET != 0) == (OLDREM(rs) >= sizeof(T)))                                          \
  __CPROVER_ensures(RET != 0 ==> R(rs)->m_Pos == OLDPOS(rs) + sizeof(T))                             \
  __CPROVER_ensures(RET == 0 ==> (R(rs)->m_Pos == OLDPOS(rs) && *t == __CPROVER_old(*t)))            \
  __CPROVER_ensures((RET != 0 && k < sizeof(T)) ==> BYTE_LE((UT)*t, k) == R(rs)->m_Buffer[OLDPOS(rs) + k]);
READ_BE_C(uint8_t, uint8_t, u8)
READ_BE_C(uint16_t, uint16_t, u16)
READ_BE_C(uint32_t, uint32_t, u32)
READ_BE_C(uint64_t, uint64_t, u64)
READ_BE_C(int16_t, uint16_t, i16)
READ_BE_C(int32_t, uint32_t, i32)
READ_BE_C(int64_t, uint64_t, i64)

size_t w_rs_remaining_c(void* rs)
RS_FRESH(rs)
__CPROVER_assigns()
__CPROVER_ensures(RET == R(rs)->m_Size - R(rs)->m_Pos && RET <= R(rs)->m_Size);

int w_rs_hasMore_c(void* rs, size_t n)
RS_FRESH(rs)
__CPROVER_assigns()
__CPROVER_ensures((RET != 0) == (n <= R(rs)->m_Size - R(rs)->m_Pos));

/* weakest precondition of setPosition for the class invariant: p <= m_Size */
void w_rs_setPosition_c(void* rs, size_t p)
RS_FRESH(rs)
__CPROVER_requires(p <= R(rs)->m_Size)
__CPROVER_assigns(R(rs)->m_Pos)
RS_KEEPS(rs)
__CPROVER_ensures(R(rs)->m_Pos == p);

void w_rs_reset_c(void* rs)
RS_FRESH(rs)
__CPROVER_assigns(R(rs)->m_Pos)
RS_KEEPS(rs)
__CPROVER_ensures(R(rs)->m_Pos == 0);

size_t w_rs_position_c(void* rs)
RS_FRESH(rs)
__CPROVER_assigns()
__CPROVER_ensures(RET == R(rs)->m_Pos);

void w_rs_remainingBytes_c(void* rs, const uint8_t** p, size_t* n)
RS_FRESH(rs)
__CPROVER_requires(__CPROVER_is_fresh(p, sizeof(*p)) && __CPROVER_is_fresh(n, sizeof(*n)))
__CPROVER_assigns(*p, *n)
RS_KEEPS(rs)
__CPROVER_ensures(R(rs)->m_Pos == OLDPOS(rs))
__CPROVER_ensures(*p == R(rs)->m_Buffer + R(rs)->m_Pos && *n == R(rs)->m_Size - R(rs)->m_Pos);

void w_rs_data_c(void* rs, const uint8_t** p, size_t* n)
RS_FRESH(rs)
__CPROVER_requires(__CPROVER_is_fresh(p, sizeof(*p)) && __CPROVER_is_fresh(n, sizeof(*n)))
__CPROVER_assigns(*p, *n)
RS_KEEPS(rs)
__CPROVER_ensures(R(rs)->m_Pos == OLDPOS(rs))
__CPROVER_ensures(*p == R(rs)->m_Buffer && *n == R(rs)->m_Size);

void w_rs_ctor_c(void* rs, const void* buf, size_t n)
__CPROVER_requires(__CPROVER_is_fresh(rs, sizeof(struct RS)) && n <= MAXBUF && __CPROVER_is_fresh(buf, n))
__CPROVER_assigns(__CPROVER_object_whole(rs))
__CPROVER_ensures(R(rs)->m_Pos == 0 && R(rs)->m_Size == n && R(rs)->m_Buffer == buf && R(rs)->m_version == 0);

/* assertReadSlice aborts (VBK_ASSERT) on underflow: its precondition is that enough bytes remain */
void w_rs_assertReadSlice_c(void* rs, size_t size, const uint8_t** p, size_t* n)
RS_FRESH(rs)
__CPROVER_requires(size <= R(rs)->m_Size - R(rs)->m_Pos)
__CPROVER_requires(__CPROVER_is_fresh(p, sizeof(*p)) && __CPROVER_is_fresh(n, sizeof(*n)))
__CPROVER_assigns(R(rs)->m_Pos, *p, *n)
RS_KEEPS(rs)
__CPROVER_ensures(R(rs)->m_Pos == OLDPOS(rs) + size && *p == R(rs)->m_Buffer + OLDPOS(rs) && *n == size);
