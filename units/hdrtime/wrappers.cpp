#include "prelude.hpp"
using namespace altintegration;
#define REACH __CPROVER_assert(0, "REACH: harness end is reachable (expected to fail)")
#ifndef NMAXB
#define NMAXB 13
#endif
#ifndef NMAXV
#define NMAXV 22
#endif
extern "C" {
uint32_t g_now;
unsigned nondet_unsigned();
size_t nondet_size_t();
void* nondet_ptr();
// ts[0] = timestamp of prev (the tip), ts[1] its parent, ... ; n = number of blocks down to the root
long w_btc_mtp(const uint32_t* ts, size_t n) {
  BtcIndex c[NMAXB];
  for (size_t i = 0; i < NMAXB; i++) { c[i].ts = ts[i]; c[i].pprev = (i + 1 < n) ? &c[i + 1] : 0; }
  return getMedianTimePast(c[0]);
}
void h_btc_mtp() { w_btc_mtp((const uint32_t*)nondet_ptr(), nondet_size_t()); REACH; }
int w_btc_checkBlockTime(const uint32_t* ts, size_t n, uint32_t block_ts, uint32_t now, uint32_t maxFuture) {
  BtcIndex c[NMAXB];
  for (size_t i = 0; i < NMAXB; i++) { c[i].ts = ts[i]; c[i].pprev = (i + 1 < n) ? &c[i + 1] : 0; }
  HdrShell b; b.ts = block_ts;
  TimeParams p; p.maxFuture = maxFuture;
  g_now = now;
  ValidationState st;
  bool ok = checkBlockTime(c[0], b, st, p);
  __CPROVER_assert(ok == st.IsValid(), "result false <=> ValidationState invalid");
  return ok;
}
void h_btc_checkBlockTime() { w_btc_checkBlockTime((const uint32_t*)nondet_ptr(), nondet_size_t(), nondet_unsigned(), nondet_unsigned(), nondet_unsigned()); REACH; }
long w_vbk_mtp(const uint32_t* ts, size_t n) {
  VbkIndex c[NMAXV];
  for (size_t i = 0; i < NMAXV; i++) { c[i].ts = ts[i]; c[i].pprev = (i + 1 < n) ? &c[i + 1] : 0; }
  return getMedianTimePast(c[0]);
}
void h_vbk_mtp() { w_vbk_mtp((const uint32_t*)nondet_ptr(), nondet_size_t()); REACH; }
int w_vbk_checkBlockTime(const uint32_t* ts, size_t n, uint32_t block_ts, uint32_t now, uint32_t maxFuture) {
  VbkIndex c[NMAXV];
  for (size_t i = 0; i < NMAXV; i++) { c[i].ts = ts[i]; c[i].pprev = (i + 1 < n) ? &c[i + 1] : 0; }
  HdrShell b; b.ts = block_ts;
  TimeParams p; p.maxFuture = maxFuture;
  g_now = now;
  ValidationState st;
  bool ok = checkBlockTime(c[0], b, st, p);
  __CPROVER_assert(ok == st.IsValid(), "result false <=> ValidationState invalid");
  return ok;
}
void h_vbk_checkBlockTime() { w_vbk_checkBlockTime((const uint32_t*)nondet_ptr(), nondet_size_t(), nondet_unsigned(), nondet_unsigned(), nondet_unsigned()); REACH; }
}
