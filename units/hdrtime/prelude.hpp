// C15: timestamp rules. getMedianTimePast / checkBlockTime (BTC) from btc_blockchain_util.cpp, calculateMinimumTimestamp /
// getMedianTimePast / checkBlockTime (VBK) from vbk_blockchain_util.cpp, sliced as non-template functions over block-index shells
// that expose pprev and the header timestamp. The wall clock (currentTimestamp4) is an arbitrary harness value.
#include <cstdint>
#include <vector>
#include <algorithm>
#include <veriblock/pop/consts.hpp>
#include <veriblock/pop/assert.hpp>
#include <veriblock/pop/validation_state.hpp>
extern "C" { extern uint32_t g_now; }
namespace altintegration {
inline uint32_t currentTimestamp4() { return g_now; }
struct HdrShell { uint32_t ts; uint32_t getTimestamp() const { return ts; } };
struct BtcIndex { BtcIndex* pprev; uint32_t ts; uint32_t getTimestamp() const { return ts; } };
struct VbkIndex { VbkIndex* pprev; uint32_t ts; uint32_t getTimestamp() const { return ts; } };
struct TimeParams { uint32_t maxFuture; uint32_t maxFutureBlockTime() const { return maxFuture; } };
#include "slices/btc_getMedianTimePast.inc"
#include "slices/btc_checkBlockTime.inc"
#include "slices/vbk_calculateMinimumTimestamp.inc"
#include "slices/vbk_getMedianTimePast.inc"
#include "slices/vbk_checkBlockTime.inc"
}  // namespace altintegration
