/* C15: "a timestamp not below the median-time-past and not too far in the future".
 * ts[0] is the parent's timestamp, ts[1] its parent's, ...; n blocks exist down to the root. The window is the last
 * m = min(n, W) timestamps (W = 11 for BTC, 20 for VBK). MEDIAN(v): v is the element of rank idx in the window, i.e.
 *   #(window < v) <= idx < #(window <= v)   and v occurs in the window,   idx = m/2 (BTC: upper median),
 *   idx = m even ? m/2 - 1 : m/2 (VBK: lower median). Counting is written out, no quantifiers. */
#include <stddef.h>
#include <stdint.h>
#define RET __CPROVER_return_value
#ifndef NMAXB
#define NMAXB 13
#endif
#ifndef NMAXV
#define NMAXV 22
#endif
extern uint32_t g_now;
#define MINW(n, W) ((n) < (W) ? (n) : (W))
#define LT11(ts, m, v) (((0 < (m)) && (ts)[0] < (v) ? 1 : 0) + ((1 < (m)) && (ts)[1] < (v) ? 1 : 0) + ((2 < (m)) && (ts)[2] < (v) ? 1 : 0) + ((3 < (m)) && (ts)[3] < (v) ? 1 : 0) + ((4 < (m)) && (ts)[4] < (v) ? 1 : 0) + ((5 < (m)) && (ts)[5] < (v) ? 1 : 0) + ((6 < (m)) && (ts)[6] < (v) ? 1 : 0) + ((7 < (m)) && (ts)[7] < (v) ? 1 : 0) + ((8 < (m)) && (ts)[8] < (v) ? 1 : 0) + ((9 < (m)) && (ts)[9] < (v) ? 1 : 0) + ((10 < (m)) && (ts)[10] < (v) ? 1 : 0))
#define LE11(ts, m, v) (((0 < (m)) && (ts)[0] <= (v) ? 1 : 0) + ((1 < (m)) && (ts)[1] <= (v) ? 1 : 0) + ((2 < (m)) && (ts)[2] <= (v) ? 1 : 0) + ((3 < (m)) && (ts)[3] <= (v) ? 1 : 0) + ((4 < (m)) && (ts)[4] <= (v) ? 1 : 0) + ((5 < (m)) && (ts)[5] <= (v) ? 1 : 0) + ((6 < (m)) && (ts)[6] <= (v) ? 1 : 0) + ((7 < (m)) && (ts)[7] <= (v) ? 1 : 0) + ((8 < (m)) && (ts)[8] <= (v) ? 1 : 0) + ((9 < (m)) && (ts)[9] <= (v) ? 1 : 0) + ((10 < (m)) && (ts)[10] <= (v) ? 1 : 0))
#define EQ11(ts, m, v) (((0 < (m)) && (ts)[0] == (v) ? 1 : 0) + ((1 < (m)) && (ts)[1] == (v) ? 1 : 0) + ((2 < (m)) && (ts)[2] == (v) ? 1 : 0) + ((3 < (m)) && (ts)[3] == (v) ? 1 : 0) + ((4 < (m)) && (ts)[4] == (v) ? 1 : 0) + ((5 < (m)) && (ts)[5] == (v) ? 1 : 0) + ((6 < (m)) && (ts)[6] == (v) ? 1 : 0) + ((7 < (m)) && (ts)[7] == (v) ? 1 : 0) + ((8 < (m)) && (ts)[8] == (v) ? 1 : 0) + ((9 < (m)) && (ts)[9] == (v) ? 1 : 0) + ((10 < (m)) && (ts)[10] == (v) ? 1 : 0))
#define LT20(ts, m, v) (((0 < (m)) && (ts)[0] < (v) ? 1 : 0) + ((1 < (m)) && (ts)[1] < (v) ? 1 : 0) + ((2 < (m)) && (ts)[2] < (v) ? 1 : 0) + ((3 < (m)) && (ts)[3] < (v) ? 1 : 0) + ((4 < (m)) && (ts)[4] < (v) ? 1 : 0) + ((5 < (m)) && (ts)[5] < (v) ? 1 : 0) + ((6 < (m)) && (ts)[6] < (v) ? 1 : 0) + ((7 < (m)) && (ts)[7] < (v) ? 1 : 0) + ((8 < (m)) && (ts)[8] < (v) ? 1 : 0) + ((9 < (m)) && (ts)[9] < (v) ? 1 : 0) + ((10 < (m)) && (ts)[10] < (v) ? 1 : 0) + ((11 < (m)) && (ts)[11] < (v) ? 1 : 0) + ((12 < (m)) && (ts)[12] < (v) ? 1 : 0) + ((13 < (m)) && (ts)[13] < (v) ? 1 : 0) + ((14 < (m)) && (ts)[14] < (v) ? 1 : 0) + ((15 < (m)) && (ts)[15] < (v) ? 1 : 0) + ((16 < (m)) && (ts)[16] < (v) ? 1 : 0) + ((17 < (m)) && (ts)[17] < (v) ? 1 : 0) + ((18 < (m)) && (ts)[18] < (v) ? 1 : 0) + ((19 < (m)) && (ts)[19] < (v) ? 1 : 0))
#define LE20(ts, m, v) (((0 < (m)) && (ts)[0] <= (v) ? 1 : 0) + ((1 < (m)) && (ts)[1] <= (v) ? 1 : 0) + ((2 < (m)) && (ts)[2] <= (v) ? 1 : 0) + ((3 < (m)) && (ts)[3] <= (v) ? 1 : 0) + ((4 < (m)) && (ts)[4] <= (v) ? 1 : 0) + ((5 < (m)) && (ts)[5] <= (v) ? 1 : 0) + ((6 < (m)) && (ts)[6] <= (v) ? 1 : 0) + ((7 < (m)) && (ts)[7] <= (v) ? 1 : 0) + ((8 < (m)) && (ts)[8] <= (v) ? 1 : 0) + ((9 < (m)) && (ts)[9] <= (v) ? 1 : 0) + ((10 < (m)) && (ts)[10] <= (v) ? 1 : 0) + ((11 < (m)) && (ts)[11] <= (v) ? 1 : 0) + ((12 < (m)) && (ts)[12] <= (v) ? 1 : 0) + ((13 < (m)) && (ts)[13] <= (v) ? 1 : 0) + ((14 < (m)) && (ts)[14] <= (v) ? 1 : 0) + ((15 < (m)) && (ts)[15] <= (v) ? 1 : 0) + ((16 < (m)) && (ts)[16] <= (v) ? 1 : 0) + ((17 < (m)) && (ts)[17] <= (v) ? 1 : 0) + ((18 < (m)) && (ts)[18] <= (v) ? 1 : 0) + ((19 < (m)) && (ts)[19] <= (v) ? 1 : 0))
#define EQ20(ts, m, v) (((0 < (m)) && (ts)[0] == (v) ? 1 : 0) + ((1 < (m)) && (ts)[1] == (v) ? 1 : 0) + ((2 < (m)) && (ts)[2] == (v) ? 1 : 0) + ((3 < (m)) && (ts)[3] == (v) ? 1 : 0) + ((4 < (m)) && (ts)[4] == (v) ? 1 : 0) + ((5 < (m)) && (ts)[5] == (v) ? 1 : 0) + ((6 < (m)) && (ts)[6] == (v) ? 1 : 0) + ((7 < (m)) && (ts)[7] == (v) ? 1 : 0) + ((8 < (m)) && (ts)[8] == (v) ? 1 : 0) + ((9 < (m)) && (ts)[9] == (v) ? 1 : 0) + ((10 < (m)) && (ts)[10] == (v) ? 1 : 0) + ((11 < (m)) && (ts)[11] == (v) ? 1 : 0) + ((12 < (m)) && (ts)[12] == (v) ? 1 : 0) + ((13 < (m)) && (ts)[13] == (v) ? 1 : 0) + ((14 < (m)) && (ts)[14] == (v) ? 1 : 0) + ((15 < (m)) && (ts)[15] == (v) ? 1 : 0) + ((16 < (m)) && (ts)[16] == (v) ? 1 : 0) + ((17 < (m)) && (ts)[17] == (v) ? 1 : 0) + ((18 < (m)) && (ts)[18] == (v) ? 1 : 0) + ((19 < (m)) && (ts)[19] == (v) ? 1 : 0))
#define BTC_IDX(m) ((m) / 2)
#define VBK_IDX(m) ((m) % 2 == 0 ? (m) / 2 - 1 : (m) / 2)
#define IS_MED11(ts, n, v) (EQ11(ts, MINW(n, 11), v) >= 1 && LT11(ts, MINW(n, 11), v) <= BTC_IDX(MINW(n, 11)) && LE11(ts, MINW(n, 11), v) > BTC_IDX(MINW(n, 11)))
#define IS_MED20(ts, n, v) (EQ20(ts, MINW(n, 20), v) >= 1 && LT20(ts, MINW(n, 20), v) <= VBK_IDX(MINW(n, 20)) && LE20(ts, MINW(n, 20), v) > VBK_IDX(MINW(n, 20)))

long w_btc_mtp_c(const uint32_t* ts, size_t n)
__CPROVER_requires(__CPROVER_is_fresh(ts, NMAXB * sizeof(uint32_t)) && n >= 1 && n <= NMAXB)
#ifdef CHAINLEN
/* one query per concrete chain length (the BTC code sorts a pointer range whose start depends on the length) */
__CPROVER_requires(n == CHAINLEN)
#endif
__CPROVER_assigns()
__CPROVER_ensures(RET >= 0 && RET <= 0xffffffffL && IS_MED11(ts, n, (uint32_t)RET));

/* accepted <=> median <= timestamp <= now + maxFuture (64-bit arithmetic, no wrap-around) */
int w_btc_checkBlockTime_c(const uint32_t* ts, size_t n, uint32_t block_ts, uint32_t now, uint32_t maxFuture)
__CPROVER_requires(__CPROVER_is_fresh(ts, NMAXB * sizeof(uint32_t)) && n >= 1 && n <= NMAXB)
#ifdef CHAINLEN
/* one query per concrete chain length (the BTC code sorts a pointer range whose start depends on the length) */
__CPROVER_requires(n == CHAINLEN)
#endif
/* the library adds the 32-bit clock and the 32-bit window in 32 bits: stated assumption "now + maxFuture < 2^32" (wall clock before the year 2106) */
__CPROVER_requires((uint64_t)now + (uint64_t)maxFuture <= 0xffffffffUL)
__CPROVER_assigns(g_now)
__CPROVER_ensures((RET != 0) == (LE11(ts, MINW(n, 11), block_ts) > BTC_IDX(MINW(n, 11)) && (uint64_t)block_ts <= (uint64_t)now + (uint64_t)maxFuture));

long w_vbk_mtp_c(const uint32_t* ts, size_t n)
__CPROVER_requires(__CPROVER_is_fresh(ts, NMAXV * sizeof(uint32_t)) && n >= 1 && n <= NMAXV)
__CPROVER_assigns()
__CPROVER_ensures(RET >= 0 && RET <= 0xffffffffL && IS_MED20(ts, n, (uint32_t)RET));

int w_vbk_checkBlockTime_c(const uint32_t* ts, size_t n, uint32_t block_ts, uint32_t now, uint32_t maxFuture)
__CPROVER_requires(__CPROVER_is_fresh(ts, NMAXV * sizeof(uint32_t)) && n >= 1 && n <= NMAXV)
__CPROVER_requires((uint64_t)now + (uint64_t)maxFuture <= 0xffffffffUL)
__CPROVER_assigns(g_now)
__CPROVER_ensures((RET != 0) == (LE20(ts, MINW(n, 20), block_ts) > VBK_IDX(MINW(n, 20)) && (uint64_t)block_ts <= (uint64_t)now + (uint64_t)maxFuture));
