// C18 (hex text form): ParseHex(const char*) with its digit table and helpers, sliced from src/pop/strutil.cpp / strutil.hpp.
#include <cstdint>
#include <vector>
#include <veriblock/pop/assert.hpp>
namespace altintegration {
#include "slices/IsSpace.inc"
#include "slices/p_util_hexdigit.inc"
#include "slices/HexDigit.inc"
#include "slices/ParseHex.inc"
}  // namespace altintegration
