#include "prelude.hpp"
using namespace altintegration;
#define REACH __CPROVER_assert(0, "REACH: harness end is reachable (expected to fail)")
#ifndef HMAX
#define HMAX 7
#endif
extern "C" {
size_t nondet_size_t();
void* nondet_ptr();
// text: HMAX bytes, the last one forced to NUL by the contract (C string); out: decoded bytes; returns their number
size_t w_parsehex(const char* text, uint8_t* out) {
  std::vector<uint8_t> v = ParseHex(text);
  for (size_t i = 0; i < v.size() && i < HMAX / 2; i++) out[i] = v.data()[i];
  return v.size();
}
void h_parsehex() { w_parsehex((const char*)nondet_ptr(), (uint8_t*)nondet_ptr()); REACH; }
}
