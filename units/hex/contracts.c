/* C18 hex: ParseHex on every NUL-terminated text of at most 6 characters (any byte values): never reads past the terminator (pointer
 * checks), and the result is the decoding of the longest well-formed prefix: whitespace is skipped before each byte, a byte is two hex
 * digits (either case), decoding stops at the first character that does not fit. Stated for the first two bytes. */
#include <stddef.h>
#include <stdint.h>
#define RET __CPROVER_return_value
#define HMAX 7
#define U(c) ((unsigned char)(c))
#define ISHEX(c) ((U(c) >= '0' && U(c) <= '9') || (U(c) >= 'a' && U(c) <= 'f') || (U(c) >= 'A' && U(c) <= 'F'))
#define HV(c) (U(c) <= '9' ? U(c) - '0' : U(c) <= 'F' ? U(c) - 'A' + 10 : U(c) - 'a' + 10)
#define ISSP(c) ((c) == ' ' || (c) == '\f' || (c) == '\n' || (c) == '\r' || (c) == '\t' || (c) == '\v')
/* index of the first non-space character at or after i (texts are NUL-terminated within HMAX, NUL is not a space) */
#define SK(t, i) (!ISSP((t)[i]) ? (i) : !ISSP((t)[(i) + 1]) ? (i) + 1 : !ISSP((t)[(i) + 2]) ? (i) + 2 : !ISSP((t)[(i) + 3]) ? (i) + 3 : !ISSP((t)[(i) + 4]) ? (i) + 4 : !ISSP((t)[(i) + 5]) ? (i) + 5 : 6)
#define B0(t) SK(t, 0)
#define HAS0(t) (ISHEX((t)[B0(t)]) && ISHEX((t)[B0(t) + 1]))
size_t w_parsehex_c(const char* text, uint8_t* out)
__CPROVER_requires(__CPROVER_is_fresh(text, HMAX) && __CPROVER_is_fresh(out, HMAX / 2) && text[HMAX - 1] == 0)
__CPROVER_assigns(__CPROVER_object_whole(out))
__CPROVER_ensures(RET <= HMAX / 2)
__CPROVER_ensures((RET >= 1) == HAS0(text))
__CPROVER_ensures(RET >= 1 ==> out[0] == (HV(text[B0(text)]) << 4 | HV(text[B0(text) + 1])));
