#include "prelude.hpp"
using namespace altintegration;
#define REACH __CPROVER_assert(0, "REACH: harness end is reachable (expected to fail)")
extern "C" {
int g_dup;
int nondet_int();
unsigned nondet_unsigned();
void* nondet_ptr();
// op 0 connectBlock, 1 removeAllPayloads, 2 connectBlock then removeAllPayloads.  st: status of the block, pst: of its parent, dup: the
// payloads hold a stateful duplicate, haspl: the block object holds payload ids
// out = {status, invalidateSubtree calls, revalidateSubtree calls, fork-resolution flag of the last such call, its reason, tryAddTip calls,
//        valid-connected signals, invalid-connected signals, tips_.erase calls, payloads cleared, clearSideEffects calls, state valid}
int w_ac(uint32_t st, uint32_t pst, int dup, int haspl, int op, uint32_t* out) {
  static Idx2 blk, parent;
  parent.pprev = 0; parent.status = pst; parent.height = 4; parent.dirty = false; parent.pnext.n = 1;
  blk.pprev = &parent; blk.status = st; blk.height = 5; blk.dirty = false; blk.pnext.n = 0; blk.has_payloads_ = haspl != 0; blk.cleared_ = 0;
  g_dup = dup;
  AltBlockTree t; t.isLoadingBlocks_ = false; t.inval_n_ = t.reval_n_ = t.tryAddTip_n_ = 0; t.last_fr_ = true; t.last_reason_ = 0;
  t.onBlockConnected.n_ = t.onInvalidBlockConnected.n_ = 0; t.tips_.erased_ = 0; t.payloadsIndex_.cleared_ = 0;
  ValidationState s;
  bool r = true;
  if (op == 0 || op == 2) r = t.connectBlock(blk, s);
  if (op == 1 || op == 2) t.removeAllPayloads(blk);
  out[0] = blk.status; out[1] = t.inval_n_; out[2] = t.reval_n_; out[3] = t.last_fr_ ? 1 : 0; out[4] = t.last_reason_; out[5] = t.tryAddTip_n_;
  out[6] = t.onBlockConnected.n_; out[7] = t.onInvalidBlockConnected.n_; out[8] = t.tips_.erased_; out[9] = blk.cleared_; out[10] = t.payloadsIndex_.cleared_; out[11] = s.IsValid() ? 1 : 0;
  return r ? 1 : 0;
}
void h_ac() { w_ac(nondet_unsigned(), nondet_unsigned(), nondet_int(), nondet_int(), nondet_int(), (uint32_t*)nondet_ptr()); REACH; }
}
