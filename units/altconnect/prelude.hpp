// C04 / C07 / C02: AltBlockTree::connectBlock and AltBlockTree::removeAllPayloads (src/pop/blockchain/alt_block_tree.cpp) on the REAL
// BlockIndex status members (unit blockindex's slices). The payload mutator's duplicate verdict is abstract (unit payloadmut proves
// isStatefulDuplicate), invalidateSubtree / revalidateSubtree act on the block's own flag through the real setFlag / unsetFlag and are
// recorded (the traversal is unit subtree), tips / signals / payload-index clearing are recorded.
#include "../blockindex/prelude.hpp"
#include <veriblock/pop/fmt.hpp>
#include <veriblock/pop/validation_state.hpp>
extern "C" { extern int g_dup; }
namespace altintegration {
struct Idx2 : public BlockIndex {
  bool has_payloads_; unsigned cleared_;
  Idx2() : BlockIndex((int32_t)0), has_payloads_(false), cleared_(0) {}
  bool hasPayloads() const { return has_payloads_; }
  void clearPayloads() { has_payloads_ = false; cleared_++; }
  // block_index.hpp: isConnected() = isValidUpTo(BLOCK_CONNECTED); allDescendantsUnconnected(): a stated precondition here
  bool isConnected() const { return this->isValidUpTo(BLOCK_CONNECTED); }
  bool allDescendantsUnconnected() const { return true; }
};
typedef Idx2 index_t;
struct MutatorShell { char pad_; };
struct SignalAC { unsigned n_; void emit(index_t&) { n_++; } void emit(index_t&, ValidationState&) { n_++; } };
struct TipsAC { unsigned erased_; void erase(index_t*) { erased_++; } };
struct PLAC { unsigned cleared_; };
struct AltBlockTree {
  bool isLoadingBlocks_;
  unsigned inval_n_, reval_n_, tryAddTip_n_; bool last_fr_; uint32_t last_reason_;
  SignalAC onBlockConnected, onInvalidBlockConnected; TipsAC tips_; PLAC payloadsIndex_;
  MutatorShell makeConnectedLeafPayloadMutator(index_t&) { MutatorShell m; m.pad_ = 0; return m; }
  bool hasStatefulDuplicates_(MutatorShell&, ValidationState& state) { if (g_dup) { state.Invalid("abstract-stateful-duplicate"); return true; } return false; }
  void invalidateSubtree(index_t& i, enum BlockValidityStatus reason, bool fr) { inval_n_++; last_fr_ = fr; last_reason_ = (uint32_t)reason; i.setFlag(reason); }
  void revalidateSubtree(index_t& i, enum BlockValidityStatus reason, bool fr) { reval_n_++; last_fr_ = fr; last_reason_ = (uint32_t)reason; i.unsetFlag(reason); }
  void tryAddTip(BlockIndex*) { tryAddTip_n_++; }
  void clearSideEffects_(index_t&, PLAC& p) { p.cleared_++; }
  bool connectBlock(index_t& index, ValidationState& state);
  void removeAllPayloads(index_t& index);
};
#include "slices/connectBlock.inc"
#include "slices/removeAllPayloads.inc"
}  // namespace altintegration
