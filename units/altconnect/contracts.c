/* C04 ("no payload id occurs twice in the chain ... a block violating any rule is reported invalid"), C07 ("a connected ALT block has only
 * connected ancestors"), C02 (removePayloads undoes connectBlock on the status word). */
#include <stddef.h>
#include <stdint.h>
#define RET __CPROVER_return_value
extern int g_dup;
#define LEVEL(s) ((s) & 7u)
#define FAILED(s) (((s) & 0xE0u) != 0)
#define F_POP 0x40u
#define HAS_PAYLOADS 0x100u
#define ACTIVE 0x200u
#define WITHLEVEL(s, l) (((s) & ~7u) | (l))
#define CONNECTED_ST (WITHLEVEL(st, 2u) | (dup ? F_POP : 0u))
int w_ac_c(uint32_t st, uint32_t pst, int dup, int haspl, int op, uint32_t* out)
__CPROVER_requires(__CPROVER_is_fresh(out, 12 * 4) && op >= 0 && op <= 2)
/* asserted by connectBlock: payloads added, not connected, not applied, parent connected; raiseValidity succeeds only without BLOCK_FAILED_POP */
__CPROVER_requires(op == 1 || ((st & HAS_PAYLOADS) != 0 && LEVEL(st) == 1 && (st & ACTIVE) == 0 && (st & F_POP) == 0 && LEVEL(pst) >= 2 && LEVEL(pst) <= 4 && !(LEVEL(pst) == 4 && (pst & F_POP) != 0)))
/* asserted by removeAllPayloads: has payloads, not applied; levels are well-formed */
__CPROVER_requires(op != 1 || ((st & HAS_PAYLOADS) != 0 && (st & ACTIVE) == 0 && LEVEL(st) >= 1 && LEVEL(st) <= 4 && !(LEVEL(st) == 4 && (st & F_POP) != 0)))
__CPROVER_assigns(__CPROVER_object_whole(out), g_dup)
/* connectBlock */
__CPROVER_ensures(op != 0 || (out[0] == CONNECTED_ST && out[1] == (dup ? 1u : 0u) && (dup == 0 || (out[3] == 0 && out[4] == F_POP)) && out[5] == 1 &&
    RET == (FAILED(CONNECTED_ST) ? 0 : 1) && out[6] == (uint32_t)RET && out[7] == 1u - (uint32_t)RET))
/* removeAllPayloads: flags cleared, a connected block is lowered to BLOCK_VALID_TREE, one revalidation of BLOCK_FAILED_POP without fork
 * resolution, the block leaves the tip set, its payload ids and their index entries are cleared when it holds any */
__CPROVER_ensures(op != 1 || (out[0] == WITHLEVEL(st & ~HAS_PAYLOADS & ~F_POP, LEVEL(st) >= 2 ? 1u : LEVEL(st)) && out[2] == 1 && out[3] == 0 && out[4] == F_POP && out[8] == 1 && out[5] == 1 &&
    out[9] == (haspl ? 1u : 0u) && out[10] == (haspl ? 3u : 0u)))
/* connect then remove: the status word is what it was, minus BLOCK_HAS_PAYLOADS */
__CPROVER_ensures(op != 2 || out[0] == (st & ~HAS_PAYLOADS));
