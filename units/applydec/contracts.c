/* C20: "Blocks that were only ever applied next to a competing chain are never reported as fully valid until they have been validated
 * on their own ancestry alone."  Tail of applyBlock: the block is raised to BLOCK_CAN_BE_APPLIED (4)  <=>  its parent is fully valid
 * (no failure flag, level 4) AND it sits exactly on top of the single applied chain (height == root.height + appliedBlockCount);
 * otherwise only to BLOCK_CAN_BE_APPLIED_MAYBE_WITH_OTHER_CHAIN (3); a level is never lowered here; the block becomes ACTIVE and the
 * applied-block counter grows by exactly one; the status change marks the block dirty. */
#include <stddef.h>
#include <stdint.h>
#define LEVEL(s) ((s)&7u)
#define FAILMASK 0xE0u
#define F_POP 0x40u
#define ACTIVE 0x200u
#define OKS(s) (LEVEL(s) <= 4 && !(LEVEL(s) == 4 && ((s)&F_POP) != 0))
#define O(i) __CPROVER_old(st[i])
#define ALONE (((prev_status & FAILMASK) == 0 && LEVEL(prev_status) == 4) && (int64_t)(int32_t)O(2) == (int64_t)root_height + (int64_t)__CPROVER_old(*applied))
void w_apply_decision_c(uint32_t* st, uint32_t prev_status, int32_t root_height, uint32_t* applied)
__CPROVER_requires(__CPROVER_is_fresh(st, 16) && __CPROVER_is_fresh(applied, 4))
/* applyBlock's own preconditions (assertBlockCanBeApplied / isValid(BLOCK_CONNECTED)): the block is valid and connected, not yet
 * applied, its parent at least "maybe applicable"; counters in range */
__CPROVER_requires(OKS(st[0]) && (st[0] & FAILMASK) == 0 && LEVEL(st[0]) >= 2 && (st[0] & ACTIVE) == 0)
__CPROVER_requires(OKS(prev_status) && LEVEL(prev_status) >= 3)
__CPROVER_requires(root_height >= 0 && root_height <= 100000000 && *applied <= 100000000 && (int32_t)st[2] >= 0)
__CPROVER_assigns(__CPROVER_object_whole(st), *applied)
__CPROVER_ensures(LEVEL(st[0]) == (ALONE ? 4u : (LEVEL(O(0)) > 3 ? LEVEL(O(0)) : 3u)))
__CPROVER_ensures((st[0] & ~7u) == ((O(0) & ~7u) | ACTIVE))
__CPROVER_ensures(*applied == __CPROVER_old(*applied) + 1)
__CPROVER_ensures(st[1] == 1 && st[2] == O(2) && OKS(st[0]));
