#include "prelude.hpp"
using namespace altintegration;
#define REACH __CPROVER_assert(0, "REACH: harness end is reachable (expected to fail)")
extern "C" {
unsigned nondet_unsigned();
void* nondet_ptr();
// st = {status, dirty, height, addon ghost} of the block being applied; parent status; root height; applied block count (in/out)
void w_apply_decision(uint32_t* st, uint32_t prev_status, int32_t root_height, uint32_t* applied) {
  BlockIndex prev(0), b(0);
  prev.status = prev_status;
  b.status = st[0]; b.dirty = st[1] != 0; b.height = (int32_t)st[2]; b.setNull_calls = st[3];
  b.pprev = &prev;
  TreeShellAD t; t.root.h = root_height; t.appliedBlockCount = *applied;
  apply_decision(b, t);
  st[0] = b.status; st[1] = b.dirty ? 1 : 0; st[2] = (uint32_t)b.height; st[3] = b.setNull_calls;
  *applied = t.appliedBlockCount;
}
void h_apply_decision() { w_apply_decision((uint32_t*)nondet_ptr(), nondet_unsigned(), (int32_t)nondet_unsigned(), (uint32_t*)nondet_ptr()); REACH; }
}
