// C20: the decision at the end of PopStateMachine::applyBlock (pop_state_machine.hpp) that tells "validated on its own ancestry"
// (BLOCK_CAN_BE_APPLIED) from "applied next to a competing chain" (BLOCK_CAN_BE_APPLIED_MAYBE_WITH_OTHER_CHAIN).
// The statements are sliced by lines and run on the REAL BlockIndex members of unit blockindex (same slices).
#include "../blockindex/prelude.hpp"
namespace altintegration {
struct RootShell { int32_t h; int32_t getHeight() const { return h; } };
struct TreeShellAD {
  RootShell root;
  uint32_t appliedBlockCount;
  RootShell& getRoot() { return root; }
};
struct block_t_shell { typedef int32_t height_t; };
// generated frame: the sliced statements are the tail of applyBlock
static void apply_decision(BlockIndex& index, TreeShellAD& ed_) {
  typedef block_t_shell block_t;
#include "slices/decision.inc"
}
}  // namespace altintegration
