#include "prelude.hpp"
using namespace altintegration;
#define REACH __CPROVER_assert(0, "REACH: harness end is reachable (expected to fail)")
#ifndef RMAX
#define RMAX 4
#endif
extern "C" {
unsigned nondet_unsigned();
int nondet_int();
void* nondet_ptr();
// st = {n, dirty, refs[0..RMAX)}; op: 0 addRef(h), 1 removeRef(h), 2 clearRefs, 3 setIsBootstrap(true); returns refCount() afterwards
uint32_t w_refs(const int32_t* in, int op, int32_t h, int32_t* out) {
  BtcBlockAddon a;
  a.dirty_ = in[1] != 0;
  for (int i = 0; i < in[0] && i < RMAX; i++) a.refs.push_back(in[2 + i]);
  __CPROVER_assert(a.refCount() == (uint32_t)in[0], "refCount() == number of references");
  if (op == 0) a.addRef(h); else if (op == 1) a.removeRef(h); else if (op == 2) a.clearRefs(); else a.setIsBootstrap(true);
  out[0] = (int32_t)a.refs.size();
  out[1] = a.dirty_ ? 1 : 0;
  for (int i = 0; i < RMAX + 1; i++) out[2 + i] = (size_t)i < a.refs.size() ? a.refs.data()[i] : 0;
  return a.refCount();
}
void h_refs() { w_refs((const int32_t*)nondet_ptr(), nondet_int(), nondet_int(), (int32_t*)nondet_ptr()); REACH; }
}
