// C10 / C07: the persisted part of BtcBlockAddon (the reference list that decides whether an SP block may be removed), sliced from
// src/pop/blockchain/btc_block_addon.cpp. The addon is a shell with the real data member `refs` (vector model); setDirty() - in the
// library a static_cast to the enclosing BlockIndex - sets the shell's dirty flag.
#include <cstdint>
#include <vector>
#include <algorithm>
#include <veriblock/pop/assert.hpp>
namespace altintegration {
using std::find;
struct BtcBlockAddon {
  typedef int32_t ref_height_t;
  std::vector<ref_height_t> refs;
  bool dirty_;
  void setDirty() { dirty_ = true; }   // btc_block_addon.cpp: static_cast<BlockIndex<BtcBlock>*>(this)->setDirty()
  void setIsBootstrap(bool isBootstrap);
  uint32_t refCount() const;
  void addRef(ref_height_t referencedAtHeight);
  void removeRef(ref_height_t referencedAtHeight);
  void clearRefs();
};
#include "slices/setIsBootstrap.inc"
#include "slices/refCount.inc"
#include "slices/addRef.inc"
#include "slices/clearRefs.inc"
#include "slices/removeRef.inc"
}  // namespace altintegration
