/* C10 ("setDirty on every mutator of persisted fields") and C07 ("an SP block exists exactly while something references it": the
 * reference list). in/out = {n, dirty, refs...}.  addRef appends; removeRef removes the FIRST occurrence and keeps the order of the
 * others; clearRefs empties; setIsBootstrap(true) = addRef(0); every change of the list marks the block dirty; refCount() == n. */
#include <stddef.h>
#include <stdint.h>
#define RET __CPROVER_return_value
#define RMAX 4
#define N(s) ((s)[0])
#define D(s) ((s)[1])
#define R(s, i) ((s)[2 + (i)])
/* index of the first occurrence of h among the first n references (n if none) */
#define FIRST(s, h) (N(s) > 0 && R(s, 0) == (h) ? 0 : N(s) > 1 && R(s, 1) == (h) ? 1 : N(s) > 2 && R(s, 2) == (h) ? 2 : N(s) > 3 && R(s, 3) == (h) ? 3 : N(s))
#define AFTER_REMOVE(in, h, i) ((i) < FIRST(in, h) ? R(in, i) : R(in, (i) + 1))
uint32_t w_refs_c(const int32_t* in, int op, int32_t h, int32_t* out)
__CPROVER_requires(__CPROVER_is_fresh(in, (2 + RMAX + 1) * 4) && __CPROVER_is_fresh(out, (2 + RMAX + 1) * 4) && op >= 0 && op <= 3)
__CPROVER_requires(N(in) >= 0 && N(in) <= RMAX && (op == 1 || op == 2 || N(in) < RMAX))
/* removeRef's own precondition (it asserts it): the reference exists */
__CPROVER_requires(op != 1 || FIRST(in, h) < N(in))
__CPROVER_assigns(__CPROVER_object_whole(out))
__CPROVER_ensures(RET == (uint32_t)N(out))
__CPROVER_ensures(op == 0 ==> (N(out) == N(in) + 1 && R(out, N(in)) == h && (N(in) < 1 || R(out, 0) == R(in, 0)) && (N(in) < 2 || R(out, 1) == R(in, 1)) && (N(in) < 3 || R(out, 2) == R(in, 2))))
__CPROVER_ensures(op == 3 ==> (N(out) == N(in) + 1 && R(out, N(in)) == 0))
__CPROVER_ensures(op == 2 ==> N(out) == 0)
__CPROVER_ensures(op == 1 ==> (N(out) == N(in) - 1 && (N(out) < 1 || R(out, 0) == AFTER_REMOVE(in, h, 0)) && (N(out) < 2 || R(out, 1) == AFTER_REMOVE(in, h, 1)) &&
                               (N(out) < 3 || R(out, 2) == AFTER_REMOVE(in, h, 2))))
/* dirty rule */
__CPROVER_ensures(D(out) == 1);
