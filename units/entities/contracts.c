/* C11 / C06: BtcBlock. Raw layout (Bitcoin header, 80 bytes): version LE | previousBlock reversed | merkleRoot reversed |
 * timestamp LE | bits LE | nonce LE.  k is a ghost byte index. */
#include <rs_contract.h>
#define LE32(v, i) ((uint8_t)((uint32_t)(v) >> (8 * (i))))
#define RAWBYTE(f, prev, mr, k) ((k) < 4 ? LE32((f)[0], (k)) : (k) < 36 ? (prev)[31 - ((k)-4)] : (k) < 68 ? (mr)[31 - ((k)-36)] : \
                                 (k) < 72 ? LE32((f)[1], (k)-68) : (k) < 76 ? LE32((f)[2], (k)-72) : LE32((f)[3], (k)-76))
size_t w_btc_toRaw_c(const uint32_t* f, const uint8_t* prev, const uint8_t* mr, uint8_t* out, size_t k)
__CPROVER_requires(__CPROVER_is_fresh(f, 16) && __CPROVER_is_fresh(prev, 32) && __CPROVER_is_fresh(mr, 32) && __CPROVER_is_fresh(out, 80) && k < 80)
__CPROVER_assigns(__CPROVER_object_whole(out))
__CPROVER_ensures(RET == 80)
__CPROVER_ensures(out[k] == RAWBYTE(f, prev, mr, k));

/* decode: accepted <=> 80 bytes remain; the cursor advances by exactly 80; every field is what the layout says (stated through the
 * re-encoding: toRaw(decode(b)) == b byte for byte); the cached hash is the one passed in (all-zero if none) - never a stale one */
int w_btc_decode_c(void* rs, const uint8_t* hashes, int use_precalc, uint8_t* outb, size_t k)
RS_FRESH(rs)
__CPROVER_requires(__CPROVER_is_fresh(hashes, 64) && __CPROVER_is_fresh(outb, 112) && k < 80)
__CPROVER_assigns(R(rs)->m_Pos, __CPROVER_object_whole(outb))
RS_KEEPS(rs)
__CPROVER_ensures((RET != 0) == (OLDREM(rs) >= 80))
__CPROVER_ensures(RET != 0 ==> R(rs)->m_Pos == OLDPOS(rs) + 80)
__CPROVER_ensures(RET != 0 ==> outb[k] == R(rs)->m_Buffer[OLDPOS(rs) + k])
__CPROVER_ensures((RET != 0 && k < 32) ==> outb[80 + k] == (use_precalc ? hashes[32 + k] : 0));

void w_btc_setters_c(const uint8_t* stale_hash, int which, uint32_t v, uint8_t* hash_after)
__CPROVER_requires(__CPROVER_is_fresh(stale_hash, 32) && __CPROVER_is_fresh(hash_after, 32))
__CPROVER_assigns(__CPROVER_object_whole(hash_after))
__CPROVER_ensures(*(const uint64_t*)hash_after == 0 && *(const uint64_t*)(hash_after + 8) == 0 && *(const uint64_t*)(hash_after + 16) == 0 && *(const uint64_t*)(hash_after + 24) == 0);

/* VbkBlock raw layout (65 bytes): height BE4 | version BE2 | previousBlock 12 | previousKeystone 9 | secondPreviousKeystone 9 |
 * merkleRoot 16 | timestamp BE4 | difficulty BE4 | nonce BE5 (the low 40 bits) */
#define BE(v, n, i) ((uint8_t)((uint64_t)(v) >> (8 * ((n)-1 - (i)))))
#define VRAW(f, nonce, blobs, k) ((k) < 4 ? BE((uint32_t)(f)[0], 4, (k)) : (k) < 6 ? BE((uint16_t)(f)[1], 2, (k)-4) : (k) < 52 ? (blobs)[(k)-6] : \
                                  (k) < 56 ? BE((f)[2], 4, (k)-52) : (k) < 60 ? BE((f)[3], 4, (k)-56) : BE((nonce) & 0xffffffffffUL, 5, (k)-60))
size_t w_vbk_toRaw_c(const uint32_t* f, uint64_t nonce, const uint8_t* blobs, uint8_t* out, size_t k)
__CPROVER_requires(__CPROVER_is_fresh(f, 16) && __CPROVER_is_fresh(blobs, 46) && __CPROVER_is_fresh(out, 65) && k < 65)
__CPROVER_assigns(__CPROVER_object_whole(out))
__CPROVER_ensures(RET == 65)
__CPROVER_ensures(out[k] == VRAW(f, nonce, blobs, k));

int w_vbk_decode_c(void* rs, const uint8_t* hashes, int use_precalc, uint8_t* outb, size_t k)
RS_FRESH(rs)
__CPROVER_requires(__CPROVER_is_fresh(hashes, 48) && __CPROVER_is_fresh(outb, 89) && k < 65)
__CPROVER_assigns(R(rs)->m_Pos, __CPROVER_object_whole(outb))
RS_KEEPS(rs)
__CPROVER_ensures((RET != 0) == (OLDREM(rs) >= 65))
__CPROVER_ensures(RET != 0 ==> R(rs)->m_Pos == OLDPOS(rs) + 65)
__CPROVER_ensures(RET != 0 ==> outb[k] == R(rs)->m_Buffer[OLDPOS(rs) + k])
__CPROVER_ensures((RET != 0 && k < 24) ==> outb[65 + k] == (use_precalc ? hashes[24 + k] : 0));

/* KeystoneContainer: operator== is equality of BOTH keystones (length and bytes); encoding = two single-byte-length values */
#define VEQ(a, b, o) ((a)[o] == (b)[o] && ((a)[o] < 1 || (a)[(o) + 1] == (b)[(o) + 1]) && ((a)[o] < 2 || (a)[(o) + 2] == (b)[(o) + 2]) && \
                      ((a)[o] < 3 || (a)[(o) + 3] == (b)[(o) + 3]) && ((a)[o] < 4 || (a)[(o) + 4] == (b)[(o) + 4]))
int w_ksc_c(const uint8_t* a, const uint8_t* b, size_t* enc)
__CPROVER_requires(__CPROVER_is_fresh(a, 10) && __CPROVER_is_fresh(b, 10) && __CPROVER_is_fresh(enc, sizeof(size_t)))
__CPROVER_requires(a[0] <= 4 && a[5] <= 4 && b[0] <= 4 && b[5] <= 4)
__CPROVER_assigns(*enc)
__CPROVER_ensures((RET != 0) == (VEQ(a, b, 0) && VEQ(a, b, 5)))
__CPROVER_ensures(*enc == 2 + (size_t)a[0] + (size_t)a[5]);

/* ContextInfoContainer: decode(encode(x)) == x; encoded size = 4 (height, big endian) + 1 + n1 + 1 + n2 */
int w_ctxser_c(int32_t height, const uint8_t* a, int32_t* back_h, uint8_t* back, size_t* enc)
__CPROVER_requires(__CPROVER_is_fresh(a, 10) && __CPROVER_is_fresh(back_h, 4) && __CPROVER_is_fresh(back, 10) && __CPROVER_is_fresh(enc, sizeof(size_t)) && a[0] <= 4 && a[5] <= 4)
__CPROVER_assigns(*back_h, __CPROVER_object_whole(back), *enc)
__CPROVER_ensures(RET != 0 && *back_h == height && VEQ(a, back, 0) && VEQ(a, back, 5))
__CPROVER_ensures(*enc == 4 + 2 + (size_t)a[0] + (size_t)a[5]);

/* Coin / PublicationData: decode(encode(x)) == x, estimateSize == encoded size (asserted in the wrapper), encoded size by format */
#define TRIMLEN(v) ((int64_t)(v) < 0 ? 8 : (uint64_t)(v) < (1UL << 8) ? 1 : (uint64_t)(v) < (1UL << 16) ? 2 : (uint64_t)(v) < (1UL << 24) ? 3 : \
                    (uint64_t)(v) < (1UL << 32) ? 4 : (uint64_t)(v) < (1UL << 40) ? 5 : (uint64_t)(v) < (1UL << 48) ? 6 : (uint64_t)(v) < (1UL << 56) ? 7 : 8)
int w_coin_c(int64_t units, int64_t* back, size_t* enc)
__CPROVER_requires(__CPROVER_is_fresh(back, 8) && __CPROVER_is_fresh(enc, sizeof(size_t)))
__CPROVER_assigns(*back, *enc)
__CPROVER_ensures(RET != 0 && *back == units && *enc == 1 + TRIMLEN(units));
#define FEQ(a, b, o) ((a)[o] == (b)[o] && ((a)[o] < 1 || (a)[(o) + 1] == (b)[(o) + 1]) && ((a)[o] < 2 || (a)[(o) + 2] == (b)[(o) + 2]) && ((a)[o] < 3 || (a)[(o) + 3] == (b)[(o) + 3]))
int w_pubdata_c(int64_t id, const uint8_t* f, int64_t* back_id, uint8_t* back, size_t* enc)
__CPROVER_requires(__CPROVER_is_fresh(f, 12) && __CPROVER_is_fresh(back_id, 8) && __CPROVER_is_fresh(back, 12) && __CPROVER_is_fresh(enc, sizeof(size_t)))
__CPROVER_requires(f[0] <= 3 && f[4] <= 3 && f[8] <= 3)
__CPROVER_assigns(*back_id, __CPROVER_object_whole(back), *enc)
__CPROVER_ensures(RET != 0 && *back_id == id && FEQ(back, f, 0) && FEQ(back, f, 4) && FEQ(back, f, 8))
/* [id: single BE value][header: var-len][context: var-len][payout: var-len]; a var-len value of n <= 3 bytes takes 2 + n bytes */
__CPROVER_ensures(*enc == 1 + TRIMLEN(id) + (2 + (size_t)f[0]) + (2 + (size_t)f[4]) + (2 + (size_t)f[8]));
