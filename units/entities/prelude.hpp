// C11/C06: fixed-layout entities over the serde unit's real primitives. Shells declare exactly the data members of the real
// entity classes; every member function body and decoder is sliced from src/pop/entities/*.cpp.
#include <cstdint>
#include <vector>
#include <veriblock/pop/assert.hpp>
#include <veriblock/pop/blob.hpp>
namespace altintegration {
#define VSTD_USE(x) { x.data(); x.reverse(); x.fill(0); x.begin(); x.end(); }
inline void vstd_force_blobs_() { Blob<32> a; Blob<32> b(a); b = a; VSTD_USE(a); { const Blob<32> ca; ca.data(); ca.begin(); ca.end(); ca.reverse(); } Blob<12> c; Blob<12> d(c); d = c; Blob<9> e; Blob<9> f(e); f = e; Blob<16> g; Blob<16> h(g); h = g; Blob<24> i; Blob<24> j(i); j = i; }
}
#include "../serde/prelude.hpp"
namespace altintegration {
typedef Blob<32> uint256;
struct BtcBlock {
  typedef uint256 hash_t;
  int32_t version;
  uint256 previousBlock;
  uint256 merkleRoot;
  uint32_t timestamp;
  uint32_t bits;
  uint32_t nonce;
  mutable hash_t hash_;
  BtcBlock() : version(0), timestamp(0), bits(0), nonce(0) {}
  void invalidateHash() const { hash_.fill(0); }   // btcblock.hpp:116
  void toRaw(WriteStream& stream) const;
  void toVbkEncoding(WriteStream& stream) const;
  size_t estimateSize() const;
  void setTimestamp(uint32_t ts);
  void setNonce(uint32_t nnc);
  void setVersion(int32_t v);
  void setPreviousBlock(const uint256& prev);
  void setMerkleRoot(const uint256& mr);
  void setDifficulty(uint32_t diff);
};
extern const uint256 vstd_empty_hash256;
bool DeserializeFromRaw(ReadStream& stream, BtcBlock& out, ValidationState& state, const BtcBlock::hash_t& precalculatedHash = vstd_empty_hash256);
bool DeserializeFromVbkEncoding(ReadStream& stream, BtcBlock& out, ValidationState& state, const BtcBlock::hash_t& precalculatedHash = vstd_empty_hash256);
typedef Blob<12> uint96;
typedef Blob<16> uint128;
typedef Blob<24> uint192;
struct VbkBlock {
  typedef uint192 hash_t;
  typedef Blob<9> keystone_t;
  int32_t height;
  int16_t version;
  uint96 previousBlock;
  keystone_t previousKeystone;
  keystone_t secondPreviousKeystone;
  uint128 merkleRoot;
  uint32_t timestamp;
  int32_t difficulty;
  uint64_t nonce;
  mutable hash_t hash_;
  VbkBlock() : height(0), version(0), timestamp(0), difficulty(0), nonce(0) {}
  void invalidateHash() { hash_.fill(0); }   // vbkblock.hpp
  void toRaw(WriteStream& stream) const;
  void toVbkEncoding(WriteStream& stream) const;
  size_t estimateSize() const;
  void setNonce(uint64_t nnc);
  void setHeight(int32_t h);
  void setVersion(int16_t v);
  void setPreviousBlock(const uint96& prev);
  void setPreviousKeystone(const keystone_t& ks);
  void setSecondPreviousKeystone(const keystone_t& ks);
  void setMerkleRoot(const uint128& mroot);
  void setTimestamp(uint32_t ts);
  void setDifficulty(int32_t diff);
};
extern const uint192 vstd_empty_hash192;
bool DeserializeFromRaw(ReadStream& stream, VbkBlock& out, ValidationState& state, const VbkBlock::hash_t& precalculatedHash = vstd_empty_hash192);
bool DeserializeFromVbkEncoding(ReadStream& stream, VbkBlock& out, ValidationState& state, const VbkBlock::hash_t& precalculatedHash = vstd_empty_hash192);
struct Coin {   // entities/coin.hpp
  int64_t units;
  Coin() : units(0) {}
  explicit Coin(int64_t u) : units(u) {}
  void toVbkEncoding(WriteStream& stream) const;
  size_t estimateSize() const;
};
struct PublicationData {   // entities/publication_data.hpp: the four data members
  int64_t identifier;
  std::vector<uint8_t> header;
  std::vector<uint8_t> payoutInfo;
  std::vector<uint8_t> contextInfo;
  PublicationData() : identifier(0) {}
  void toVbkEncoding(WriteStream& stream) const;
  size_t estimateSize() const;
};
struct KeystoneContainer {   // entities/keystone_container.hpp: the two data members
  std::vector<uint8_t> firstPreviousKeystone;
  std::vector<uint8_t> secondPreviousKeystone;
  void toVbkEncoding(WriteStream& stream) const;
  size_t estimateSize() const;
#include "slices/ksc_eq.inc"
};
bool DeserializeFromVbkEncoding(ReadStream& stream, KeystoneContainer& container, ValidationState& state);
struct ContextInfoContainer {   // entities/context_info_container.hpp: the two data members
  int32_t height;
  KeystoneContainer keystones;
  ContextInfoContainer() : height(0) {}
  void toVbkEncoding(WriteStream& w) const;
  size_t estimateSize() const;
};
#include "slices/generic_DeserializeFromRaw.inc"
#include "slices/btc_toRaw.inc"
#include "slices/btc_toVbkEncoding.inc"
#include "slices/btc_estimateSize.inc"
#include "slices/btc_setters.inc"
#include "slices/btc_DeserializeFromRaw.inc"
#include "slices/btc_DeserializeFromVbkEncoding.inc"
#include "slices/coin_toVbkEncoding.inc"
#include "slices/coin_estimateSize.inc"
#include "slices/coin_Deserialize.inc"
#include "slices/pub_toVbkEncoding.inc"
#include "slices/pub_estimateSize.inc"
#include "slices/pub_Deserialize.inc"
#include "slices/ksc_toVbkEncoding.inc"
#include "slices/ksc_estimateSize.inc"
#include "slices/readSingleByteLenValue_vec.inc"
#include "slices/ksc_Deserialize.inc"
#include "slices/ctxinfo_toVbkEncoding.inc"
#include "slices/ctxinfo_estimateSize.inc"
#include "slices/ctxinfo_Deserialize.inc"
#include "slices/vbk_toRaw.inc"
#include "slices/vbk_toVbkEncoding.inc"
#include "slices/vbk_estimateSize.inc"
#include "slices/vbk_setters.inc"
#include "slices/vbk_DeserializeFromRaw.inc"
#include "slices/vbk_DeserializeFromVbkEncoding.inc"
}  // namespace altintegration
