#include "prelude.hpp"
namespace altintegration { const uint256 vstd_empty_hash256; const uint192 vstd_empty_hash192; }   // = BtcBlock::hash_t{} (all zero), the header's default argument
using namespace altintegration;
#define REACH __CPROVER_assert(0, "REACH: harness end is reachable (expected to fail)")
extern "C" {
size_t nondet_size_t();
void* nondet_ptr();
unsigned nondet_unsigned();
extern const size_t RS_LAYOUT[5];
void check_layout() {
  __CPROVER_assert(sizeof(ReadStream) == RS_LAYOUT[0], "LAYOUT sizeof(ReadStream) equals the C mirror");
  ReadStream* z = (ReadStream*)0;
  __CPROVER_assert((size_t)&z->m_version == RS_LAYOUT[1] && (size_t)&z->m_Pos == RS_LAYOUT[2] &&
                   (size_t)&z->m_Buffer == RS_LAYOUT[3] && (size_t)&z->m_Size == RS_LAYOUT[4],
                   "LAYOUT offsets of ReadStream members equal the C mirror");
}
static void mkbtc(BtcBlock& b, const uint32_t* f, const uint8_t* prev, const uint8_t* mr) {
  b.version = (int32_t)f[0]; b.timestamp = f[1]; b.bits = f[2]; b.nonce = f[3];
  for (int i = 0; i < 32; i++) { b.previousBlock.data_[i] = prev[i]; b.merkleRoot.data_[i] = mr[i]; }
}
// f = {version, timestamp, bits, nonce}; out: 80 raw bytes; returns the number of bytes written
size_t w_btc_toRaw(const uint32_t* f, const uint8_t* prev, const uint8_t* mr, uint8_t* out, size_t k) {
  BtcBlock b;
  mkbtc(b, f, prev, mr);
  WriteStream w;
  b.toRaw(w);
  const std::vector<uint8_t>& d = w.data();
  __CPROVER_assert(d.size() <= 80, "HARNESS: raw header fits 80 bytes");
  for (size_t i = 0; i < d.size() && i < 80; i++) out[i] = d[i];
  WriteStream v;
  b.toVbkEncoding(v);
  __CPROVER_assert(b.estimateSize() == v.data().size(), "estimateSize() == bytes written by toVbkEncoding()");
  __CPROVER_assert(v.data().size() == d.size() + 1 && v.data()[0] == d.size(), "VBK encoding = [length byte][raw header]");
  __CPROVER_assert(k >= d.size() || v.data()[1 + k] == d[k], "VBK encoding carries the raw header unchanged");
  return d.size();
}
void h_btc_toRaw() { w_btc_toRaw((const uint32_t*)nondet_ptr(), (const uint8_t*)nondet_ptr(), (const uint8_t*)nondet_ptr(), (uint8_t*)nondet_ptr(), nondet_size_t()); REACH; }

// decode an arbitrary stream into a block that already carries an arbitrary cached hash (stale), then re-encode:
// g = decoded {version,timestamp,bits,nonce}; reenc = toRaw(decoded); hash_after = the block's cached hash after decoding
// hashes = stale cached hash (32) | precalculated hash (32); outb = re-encoding (80) | cached hash after decoding (32)
int w_btc_decode(void* rs, const uint8_t* hashes, int use_precalc, uint8_t* outb, size_t k) {
  const uint8_t* stale_hash = hashes; const uint8_t* precalc = hashes + 32; uint8_t* reenc = outb; uint8_t* hash_after = outb + 80;
  BtcBlock b;
  __CPROVER_assert(0, "REACH: wrapper entry is reachable (expected to fail)");
  for (int i = 0; i < 32; i++) b.hash_.data_[i] = stale_hash[i];
  ValidationState st;
  bool ok;
  if (use_precalc) {
    uint256 h;
    for (int i = 0; i < 32; i++) h.data_[i] = precalc[i];
    ok = DeserializeFromRaw(*(ReadStream*)rs, b, st, h);
  } else {
    ok = DeserializeFromRaw(*(ReadStream*)rs, b, st);
  }
  __CPROVER_assert(ok == st.IsValid(), "result false <=> ValidationState invalid");
  __CPROVER_assert(!ok, "REACH: an accepting decode is reachable (expected to fail)");
  __CPROVER_assert(ok, "REACH: a rejecting decode is reachable (expected to fail)");
  for (int i = 0; i < 32; i++) hash_after[i] = b.hash_.data_[i];
  if (ok) {
    WriteStream w;
    b.toRaw(w);
    __CPROVER_assert(w.data().size() == 80, "re-encoding a decoded header gives 80 bytes");
    if (k < 80) reenc[k] = w.data()[k];
  }
  return ok;
}
void h_btc_decode() { check_layout(); w_btc_decode(nondet_ptr(), (const uint8_t*)nondet_ptr(), (int)nondet_unsigned(), (uint8_t*)nondet_ptr(), nondet_size_t()); REACH; }

// setters reset the cached hash (ids/hashes depend only on the content)
void w_btc_setters(const uint8_t* stale_hash, int which, uint32_t v, uint8_t* hash_after) {
  BtcBlock b;
  for (int i = 0; i < 32; i++) b.hash_.data_[i] = stale_hash[i];
  uint256 x;
  if (which == 0) b.setTimestamp(v); else if (which == 1) b.setNonce(v); else if (which == 2) b.setVersion((int32_t)v);
  else if (which == 3) b.setPreviousBlock(x); else if (which == 4) b.setMerkleRoot(x); else b.setDifficulty(v);
  for (int i = 0; i < 32; i++) hash_after[i] = b.hash_.data_[i];
}
void h_btc_setters() { w_btc_setters((const uint8_t*)nondet_ptr(), (int)nondet_unsigned(), nondet_unsigned(), (uint8_t*)nondet_ptr()); REACH; }

// ---------------------------------------------------------------- VbkBlock (65 raw bytes)
// f = {height, version, timestamp, difficulty}; blobs = previousBlock(12) | previousKeystone(9) | secondPreviousKeystone(9) | merkleRoot(16)
static void mkvbk(VbkBlock& b, const uint32_t* f, uint64_t nonce, const uint8_t* blobs) {
  b.height = (int32_t)f[0]; b.version = (int16_t)f[1]; b.timestamp = f[2]; b.difficulty = (int32_t)f[3]; b.nonce = nonce;
  for (int i = 0; i < 12; i++) b.previousBlock.data_[i] = blobs[i];
  for (int i = 0; i < 9; i++) { b.previousKeystone.data_[i] = blobs[12 + i]; b.secondPreviousKeystone.data_[i] = blobs[21 + i]; }
  for (int i = 0; i < 16; i++) b.merkleRoot.data_[i] = blobs[30 + i];
}
size_t w_vbk_toRaw(const uint32_t* f, uint64_t nonce, const uint8_t* blobs, uint8_t* out, size_t k) {
  VbkBlock b;
  mkvbk(b, f, nonce, blobs);
  WriteStream w;
  b.toRaw(w);
  const std::vector<uint8_t>& d = w.data();
  __CPROVER_assert(d.size() <= 65, "HARNESS: raw header fits 65 bytes");
  for (size_t i = 0; i < d.size() && i < 65; i++) out[i] = d[i];
  WriteStream v;
  b.toVbkEncoding(v);
  __CPROVER_assert(b.estimateSize() == v.data().size(), "estimateSize() == bytes written by toVbkEncoding()");
  __CPROVER_assert(v.data().size() == d.size() + 1 && v.data()[0] == d.size(), "VBK encoding = [length byte][raw header]");
  __CPROVER_assert(k >= d.size() || v.data()[1 + k] == d[k], "VBK encoding carries the raw header unchanged");
  return d.size();
}
void h_vbk_toRaw() { w_vbk_toRaw((const uint32_t*)nondet_ptr(), nondet_size_t(), (const uint8_t*)nondet_ptr(), (uint8_t*)nondet_ptr(), nondet_size_t()); REACH; }
// hashes = stale cached hash (24) | precalculated hash (24); outb = re-encoding (65) | cached hash after decoding (24)
int w_vbk_decode(void* rs, const uint8_t* hashes, int use_precalc, uint8_t* outb, size_t k) {
  const uint8_t* stale_hash = hashes; const uint8_t* precalc = hashes + 24; uint8_t* reenc = outb; uint8_t* hash_after = outb + 65;
  VbkBlock b;
  __CPROVER_assert(0, "REACH: wrapper entry is reachable (expected to fail)");
  for (int i = 0; i < 24; i++) b.hash_.data_[i] = stale_hash[i];
  ValidationState st;
  bool ok;
  if (use_precalc) {
    uint192 h;
    for (int i = 0; i < 24; i++) h.data_[i] = precalc[i];
    ok = DeserializeFromRaw(*(ReadStream*)rs, b, st, h);
  } else {
    ok = DeserializeFromRaw(*(ReadStream*)rs, b, st);
  }
  __CPROVER_assert(ok == st.IsValid(), "result false <=> ValidationState invalid");
  __CPROVER_assert(!ok, "REACH: an accepting decode is reachable (expected to fail)");
  for (int i = 0; i < 24; i++) hash_after[i] = b.hash_.data_[i];
  if (ok) {
    WriteStream w;
    b.toRaw(w);
    __CPROVER_assert(w.data().size() == 65, "re-encoding a decoded header gives 65 bytes");
    if (k < 65) reenc[k] = w.data()[k];
  }
  return ok;
}
void h_vbk_decode() { check_layout(); w_vbk_decode(nondet_ptr(), (const uint8_t*)nondet_ptr(), (int)nondet_unsigned(), (uint8_t*)nondet_ptr(), nondet_size_t()); REACH; }

// ---------------------------------------------------------------- KeystoneContainer
// a, b: two containers as [n1][4 bytes][n2][4 bytes] (lengths <= 4); returns a == b; *enc = bytes written by a.toVbkEncoding()
int w_ksc(const uint8_t* a, const uint8_t* b, size_t* enc) {
  KeystoneContainer x, y;
  x.firstPreviousKeystone = std::vector<uint8_t>(a + 1, a + 1 + a[0]);
  x.secondPreviousKeystone = std::vector<uint8_t>(a + 6, a + 6 + a[5]);
  y.firstPreviousKeystone = std::vector<uint8_t>(b + 1, b + 1 + b[0]);
  y.secondPreviousKeystone = std::vector<uint8_t>(b + 6, b + 6 + b[5]);
  WriteStream w;
  x.toVbkEncoding(w);
  *enc = w.data().size();
  __CPROVER_assert(x.estimateSize() == w.data().size(), "estimateSize() == bytes written by toVbkEncoding()");
  return x == y;
}
void h_ksc() { w_ksc((const uint8_t*)nondet_ptr(), (const uint8_t*)nondet_ptr(), (size_t*)nondet_ptr()); REACH; }

// ---------------------------------------------------------------- ContextInfoContainer: encode, size, decode again
// a = [n1][4 bytes][n2][4 bytes]; back = same layout for the decoded keystones
int w_ctxser(int32_t height, const uint8_t* a, int32_t* back_h, uint8_t* back, size_t* enc) {
  ContextInfoContainer c;
  c.height = height;
  c.keystones.firstPreviousKeystone = std::vector<uint8_t>(a + 1, a + 1 + a[0]);
  c.keystones.secondPreviousKeystone = std::vector<uint8_t>(a + 6, a + 6 + a[5]);
  WriteStream w;
  c.toVbkEncoding(w);
  *enc = w.data().size();
  __CPROVER_assert(c.estimateSize() == w.data().size(), "estimateSize() == bytes written by toVbkEncoding()");
  ReadStream r(w.data());
  ValidationState st;
  ContextInfoContainer d;
  bool ok = DeserializeFromVbkEncoding(r, d, st);
  *back_h = d.height;
  for (int i = 0; i < 10; i++) back[i] = 0;
  back[0] = (uint8_t)d.keystones.firstPreviousKeystone.size();
  for (int i = 0; i < 4; i++) if ((size_t)i < d.keystones.firstPreviousKeystone.size()) back[1 + i] = d.keystones.firstPreviousKeystone.data()[i];
  back[5] = (uint8_t)d.keystones.secondPreviousKeystone.size();
  for (int i = 0; i < 4; i++) if ((size_t)i < d.keystones.secondPreviousKeystone.size()) back[6 + i] = d.keystones.secondPreviousKeystone.data()[i];
  __CPROVER_assert(!ok || r.remaining() == 0, "decoder consumes exactly the encoding");
  return ok;
}
void h_ctxser() { w_ctxser((int32_t)nondet_size_t(), (const uint8_t*)nondet_ptr(), (int32_t*)nondet_ptr(), (uint8_t*)nondet_ptr(), (size_t*)nondet_ptr()); REACH; }
// ---------------------------------------------------------------- Coin, PublicationData: encode, size, decode again
int w_coin(int64_t units, int64_t* back, size_t* enc) {
  Coin c(units);
  WriteStream w;
  c.toVbkEncoding(w);
  *enc = w.data().size();
  __CPROVER_assert(c.estimateSize() == w.data().size(), "estimateSize() == bytes written by toVbkEncoding()");
  ReadStream r(w.data());
  ValidationState st;
  Coin d;
  bool ok = DeserializeFromVbkEncoding(r, d, st);
  *back = d.units;
  __CPROVER_assert(!ok || r.remaining() == 0, "decoder consumes exactly the encoding");
  return ok;
}
void h_coin() { w_coin((int64_t)nondet_size_t(), (int64_t*)nondet_ptr(), (size_t*)nondet_ptr()); REACH; }
// f = [n1][3 bytes header][n2][3 bytes context][n3][3 bytes payout]; back = same layout for the decoded value
int w_pubdata(int64_t id, const uint8_t* f, int64_t* back_id, uint8_t* back, size_t* enc) {
  PublicationData p;
  p.identifier = id;
  p.header = std::vector<uint8_t>(f + 1, f + 1 + f[0]);
  p.contextInfo = std::vector<uint8_t>(f + 5, f + 5 + f[4]);
  p.payoutInfo = std::vector<uint8_t>(f + 9, f + 9 + f[8]);
  WriteStream w;
  p.toVbkEncoding(w);
  *enc = w.data().size();
  __CPROVER_assert(p.estimateSize() == w.data().size(), "estimateSize() == bytes written by toVbkEncoding()");
  ReadStream r(w.data());
  ValidationState st;
  PublicationData q;
  bool ok = DeserializeFromVbkEncoding(r, q, st);
  *back_id = q.identifier;
  for (int i = 0; i < 12; i++) back[i] = 0;
  if (ok) {
    back[0] = (uint8_t)q.header.size(); back[4] = (uint8_t)q.contextInfo.size(); back[8] = (uint8_t)q.payoutInfo.size();
    for (size_t i = 0; i < q.header.size() && i < 3; i++) back[1 + i] = q.header.data()[i];
    for (size_t i = 0; i < q.contextInfo.size() && i < 3; i++) back[5 + i] = q.contextInfo.data()[i];
    for (size_t i = 0; i < q.payoutInfo.size() && i < 3; i++) back[9 + i] = q.payoutInfo.data()[i];
    __CPROVER_assert(r.remaining() == 0, "decoder consumes exactly the encoding");
  }
  return ok;
}
void h_pubdata() { w_pubdata((int64_t)nondet_size_t(), (const uint8_t*)nondet_ptr(), (int64_t*)nondet_ptr(), (uint8_t*)nondet_ptr(), (size_t*)nondet_ptr()); REACH; }
}
