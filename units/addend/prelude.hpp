// C04-U1: AddEndorsement::Execute sliced from commands/addendorsement.hpp. Trees are shells: getBlockIndex returns what the
// harness decides (present / absent), getAncestor(h) is abstracted by its contract ("the ancestor at that height, or null"):
// it returns a harness-chosen pointer; the three insert* calls are counted.
#include <cstdint>
#include <veriblock/pop/assert.hpp>
#include <veriblock/pop/validation_state.hpp>
namespace altintegration {
struct Endo { int containingHash, endorsedHash, blockOfProof; };
struct Blk {
  int32_t height;
  Blk* anc;             // what getAncestor returns (abstract)
  int32_t anc_query;    // ghost: height asked for
  unsigned ins_containing, ins_endorsedBy, ins_bop;
  Endo* last;
  int32_t getHeight() const { return height; }
  Blk* getAncestor(int32_t h) { anc_query = h; return anc; }
  void insertContainingEndorsement(Endo* e) { ins_containing++; last = e; }
  void insertEndorsedBy(Endo* e) { ins_endorsedBy++; last = e; }
  void insertBlockOfProofEndorsement(Endo* e) { ins_bop++; last = e; }
};
struct Params { uint32_t si; uint32_t getEndorsementSettlementInterval() const { return si; } };
struct Tree {
  Blk* byhash[3];   // hash 0 = containing, 1 = endorsed, 2 = block of proof (null = unknown)
  Params p;
  Blk* getBlockIndex(int h) { return byhash[h]; }
  const Params& getParams() const { return const_cast<Tree*>(this)->p; }
};
struct AddEndorsementShell {
  Tree* ing_;
  Tree* ed_;
  Endo* e_;
#include "slices/Execute.inc"
};
}  // namespace altintegration
