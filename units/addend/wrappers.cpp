#include "prelude.hpp"
using namespace altintegration;
#define REACH __CPROVER_assert(0, "REACH: harness end is reachable (expected to fail)")
extern "C" {
int nondet_int();
unsigned nondet_unsigned();
void* nondet_ptr();
// present: bit0 containing, bit1 endorsed, bit2 block of proof known; anc_kind: 0 getAncestor returns null, 1 the endorsed block, 2 another block
// out = {ins_containing(containing), ins_endorsedBy(endorsed), ins_bop(blockOfProof), any other insert, height asked of getAncestor}
int w_addend(unsigned present, int32_t hC, int32_t hE, int anc_kind, uint32_t si, int32_t* out) {
  Blk c, e, b, other;
  Blk* all[4] = {&c, &e, &b, &other};
  for (int i = 0; i < 4; i++) { all[i]->height = 0; all[i]->anc = 0; all[i]->anc_query = -1; all[i]->ins_containing = all[i]->ins_endorsedBy = all[i]->ins_bop = 0; all[i]->last = 0; }
  c.height = hC; e.height = hE;
  c.anc = anc_kind == 0 ? 0 : anc_kind == 1 ? &e : &other;
  Tree ed, ing;
  ed.byhash[0] = (present & 1) ? &c : 0; ed.byhash[1] = (present & 2) ? &e : 0; ed.byhash[2] = 0;
  ing.byhash[0] = 0; ing.byhash[1] = 0; ing.byhash[2] = (present & 4) ? &b : 0;
  ed.p.si = si; ing.p.si = 0;
  Endo en; en.containingHash = 0; en.endorsedHash = 1; en.blockOfProof = 2;
  AddEndorsementShell cmd; cmd.ing_ = &ing; cmd.ed_ = &ed; cmd.e_ = &en;
  ValidationState st;
  bool r = cmd.Execute(st);
  __CPROVER_assert(r == st.IsValid(), "result false <=> ValidationState invalid");
  out[0] = (int32_t)c.ins_containing; out[1] = (int32_t)e.ins_endorsedBy; out[2] = (int32_t)b.ins_bop;
  out[3] = (int32_t)(c.ins_endorsedBy + c.ins_bop + e.ins_containing + e.ins_bop + b.ins_containing + b.ins_endorsedBy + other.ins_containing + other.ins_endorsedBy + other.ins_bop);
  out[4] = c.anc_query;
  __CPROVER_assert(!r || (c.last == &en && e.last == &en && b.last == &en), "the three back-pointers are this endorsement");
  return r;
}
void h_addend() { w_addend(nondet_unsigned(), nondet_int(), nondet_int(), nondet_int(), nondet_unsigned(), (int32_t*)nondet_ptr()); REACH; }
}
