/* C04: "each ATV/VTB endorses a block of its containing block's own chain no more than the settlement interval below it".
 * Execute returns true  <=>  containing, endorsed and block of proof are known  /\  the containing block's ancestor at the endorsed
 * block's height IS the endorsed block (same chain)  /\  containing.height - endorsed.height <= settlement interval;
 * then each of the three indices gets exactly one back-pointer; on false nothing is inserted anywhere. */
#include <stddef.h>
#include <stdint.h>
#define RET __CPROVER_return_value
int w_addend_c(unsigned present, int32_t hC, int32_t hE, int anc_kind, uint32_t si, int32_t* out)
__CPROVER_requires(__CPROVER_is_fresh(out, 5 * sizeof(int32_t)) && hC >= 0 && hE >= 0 && anc_kind >= 0 && anc_kind <= 2 && si <= 0x7fffffffu)
__CPROVER_assigns(__CPROVER_object_whole(out))
__CPROVER_ensures((RET != 0) == ((present & 7) == 7 && anc_kind == 1 && (int64_t)hC - (int64_t)hE <= (int64_t)si))
__CPROVER_ensures(RET != 0 ==> (out[0] == 1 && out[1] == 1 && out[2] == 1 && out[3] == 0 && out[4] == hE))
__CPROVER_ensures(RET == 0 ==> (out[0] == 0 && out[1] == 0 && out[2] == 0 && out[3] == 0));
