/* C13: "the height-sorted in-flight view and the map describe the same set" for ValueSortedMap.
 * state s = [mn, sn, mk[CAP], mh[CAP], mid[CAP], sh[CAP], sid[CAP]]: map entries (key -> value{h,id}) and the sorted view's values.
 * WF(s): mn == sn <= CAP, keys distinct, multiset(set values) == multiset(map values), set values sorted by height (written out for CAP = 3).
 * Every operation: requires WF(in), ensures WF(out) and the exact abstract effect on the key -> value view
 * (gk is a ghost key: "every other key is untouched"). */
#include <stddef.h>
#include <stdint.h>
#define RET __CPROVER_return_value
#define CAP 3
#define NST (2 + 5 * CAP)
#define MN(s) ((s)[0])
#define SN(s) ((s)[1])
#define MK(s, i) ((s)[2 + (i)])
#define MH(s, i) ((s)[2 + CAP + (i)])
#define MID(s, i) ((s)[2 + 2 * CAP + (i)])
#define SH(s, i) ((s)[2 + 3 * CAP + (i)])
#define SID(s, i) ((s)[2 + 4 * CAP + (i)])
#define E(s, i, j) (MH(s, i) == SH(s, j) && MID(s, i) == SID(s, j))
#define MSEQ(s) (MN(s) == 0 ? 1 : MN(s) == 1 ? E(s, 0, 0) : MN(s) == 2 ? ((E(s, 0, 0) && E(s, 1, 1)) || (E(s, 0, 1) && E(s, 1, 0))) : \
                 ((E(s, 0, 0) && E(s, 1, 1) && E(s, 2, 2)) || (E(s, 0, 0) && E(s, 1, 2) && E(s, 2, 1)) || (E(s, 0, 1) && E(s, 1, 0) && E(s, 2, 2)) || \
                  (E(s, 0, 1) && E(s, 1, 2) && E(s, 2, 0)) || (E(s, 0, 2) && E(s, 1, 0) && E(s, 2, 1)) || (E(s, 0, 2) && E(s, 1, 1) && E(s, 2, 0))))
#define DISTINCT(s) ((MN(s) < 2 || MK(s, 0) != MK(s, 1)) && (MN(s) < 3 || (MK(s, 0) != MK(s, 2) && MK(s, 1) != MK(s, 2))))
/* the sorted view is sorted by height */
#define SORTED(s) ((SN(s) < 2 || SH(s, 0) <= SH(s, 1)) && (SN(s) < 3 || SH(s, 1) <= SH(s, 2)))
#define WF(s) (MN(s) >= 0 && MN(s) <= CAP && MN(s) == SN(s) && DISTINCT(s) && MSEQ(s) && SORTED(s))
#define HAS(s, k) ((MN(s) > 0 && MK(s, 0) == (k)) || (MN(s) > 1 && MK(s, 1) == (k)) || (MN(s) > 2 && MK(s, 2) == (k)))
#define VH(s, k) ((MN(s) > 0 && MK(s, 0) == (k)) ? MH(s, 0) : (MN(s) > 1 && MK(s, 1) == (k)) ? MH(s, 1) : MH(s, 2))
#define VID(s, k) ((MN(s) > 0 && MK(s, 0) == (k)) ? MID(s, 0) : (MN(s) > 1 && MK(s, 1) == (k)) ? MID(s, 1) : MID(s, 2))
#define SAME_AT(out, in, k) (HAS(out, k) == HAS(in, k) && (!HAS(in, k) || (VH(out, k) == VH(in, k) && VID(out, k) == VID(in, k))))
#define IO __CPROVER_is_fresh(in, NST * sizeof(int)) && __CPROVER_is_fresh(out, NST * sizeof(int))

void w_vs_insert_c(const int* in, int key, int h, int id, int* out, int gk)
__CPROVER_requires(IO && WF(in) && (HAS(in, key) || MN(in) < CAP))
__CPROVER_assigns(__CPROVER_object_whole(out))
__CPROVER_ensures(WF(out))
__CPROVER_ensures(HAS(out, key) && VH(out, key) == h && VID(out, key) == id)
__CPROVER_ensures(MN(out) == MN(in) + (HAS(in, key) ? 0 : 1))
__CPROVER_ensures(gk != key ==> SAME_AT(out, in, gk));

void w_vs_erase_c(const int* in, int key, int* out, int gk)
__CPROVER_requires(IO && WF(in))
__CPROVER_assigns(__CPROVER_object_whole(out))
__CPROVER_ensures(WF(out))
__CPROVER_ensures(!HAS(out, key) && MN(out) == MN(in) - (HAS(in, key) ? 1 : 0))
__CPROVER_ensures(gk != key ==> SAME_AT(out, in, gk));

void w_vs_erase_it_c(const int* in, int idx, int* out, int gk)
__CPROVER_requires(IO && WF(in) && idx >= 0 && idx < MN(in))
__CPROVER_assigns(__CPROVER_object_whole(out))
__CPROVER_ensures(WF(out))
__CPROVER_ensures(!HAS(out, MK(in, idx)) && MN(out) == MN(in) - 1)
__CPROVER_ensures(gk != MK(in, idx) ==> SAME_AT(out, in, gk));

int w_vs_size_clear_c(const int* in, int* em, int* out)
__CPROVER_requires(IO && WF(in) && __CPROVER_is_fresh(em, sizeof(int)))
__CPROVER_assigns(__CPROVER_object_whole(out), *em)
__CPROVER_ensures(RET == MN(in) && (*em != 0) == (MN(in) == 0))
__CPROVER_ensures(MN(out) == 0 && SN(out) == 0);
