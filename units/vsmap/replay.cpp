// native replay for unit vsmap: the REAL ValueSortedMap<int, Val> (comparator on the height only, as MemPool instantiates it) is
// filled with the counterexample's map entries - in every insertion order, because which equivalent element std::multiset::find
// returns depends on it - then the operation is applied and the two views are compared.
#include <algorithm>
#include <cstdio>
#include <vector>
#include <veriblock/pop/value_sorted_map.hpp>
#include "replay_inputs.hpp"
using namespace altintegration;
struct Val { int h; int id; bool operator==(const Val& o) const { return h == o.h && id == o.id; } };
typedef ValueSortedMap<int, Val> M;
static bool wf(const M& m) {
  std::vector<std::pair<int, int>> a, b;
  for (auto& p : m) a.push_back({p.second.h, p.second.id});
  for (auto& v : m.getSortedValues()) b.push_back({v.h, v.id});
  std::sort(a.begin(), a.end());
  std::sort(b.begin(), b.end());
  return a == b;
}
int main(int argc, char** argv) {
  ReplayInputs in;
  if (argc < 3 || !in.load(argv[1])) { printf("NOT-REPRODUCED: cannot read inputs\n"); return 2; }
  std::string h = argv[2];
  auto st = in.a.count("in") ? in.a["in"] : std::vector<long long>{};
  if (st.size() < 17) { printf("NOT-REPRODUCED: no state array in the counterexample\n"); return 0; }
  const int CAP = 3;
  int n = (int)st[0];
  std::vector<int> order;
  for (int i = 0; i < n && i < CAP; i++) order.push_back(i);
  do {
    M m([](const Val& a, const Val& b) { return a.h < b.h; });
    for (int i : order) m.insert((int)st[2 + i], Val{(int)st[2 + CAP + i], (int)st[2 + 2 * CAP + i]});
    if (!wf(m)) continue;
    int key = (int)in.S("key");
    if (h == "vs_erase") m.erase(key);
    else if (h == "vs_erase_it") { auto it = m.find((int)st[2 + (int)in.S("idx")]); if (it != m.end()) m.erase(it); }
    else if (h == "vs_insert") m.insert(key, Val{(int)in.S("h"), (int)in.S("id")});
    else { printf("NOT-REPRODUCED: no native evaluator for %s\n", h.c_str()); return 0; }
    if (!wf(m)) {
      printf("insertion order:");
      for (int i : order) printf(" (key=%d h=%d id=%d)", (int)st[2 + i], (int)st[2 + CAP + i], (int)st[2 + 2 * CAP + i]);
      printf("\nafter %s: map values {", h.c_str());
      for (auto& p : m) printf(" %d:(h=%d id=%d)", p.first, p.second.h, p.second.id);
      printf(" }  sorted view {");
      for (auto& v : m.getSortedValues()) printf(" (h=%d id=%d)", v.h, v.id);
      printf(" }\nREPRODUCED: the sorted view and the map of the real ValueSortedMap describe different sets\n");
      return 1;
    }
  } while (std::next_permutation(order.begin(), order.end()));
  printf("NOT-REPRODUCED\n");
  return 0;
}
