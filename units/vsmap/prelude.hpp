// C13: ValueSortedMap - the real member bodies (sliced one by one from value_sorted_map.hpp) over contract-level models of
// std::unordered_map<K,V> and std::multiset<V,cmp> with bounded capacity CAP.
//   multiset::find(v)  returns SOME element equivalent to v under the comparator (!cmp(a,v) && !cmp(v,a)), chosen
//   nondeterministically - that is all the standard promises - or end() if there is none.
// K = int key; V = {h, id}: the comparator looks at h only (as MemPool's does: height of the payload), id tells elements apart.
#include <cstdint>
#include <veriblock/pop/assert.hpp>
#ifndef CAP
#define CAP 3
#endif
extern "C" size_t nondet_size_t();
namespace std {
template <class T> T& move(T& t) { return t; }  // (no rvalue references in the front end: move is a cast that leaves the source valid)
}
namespace altintegration {
typedef int K;
struct V { int h; int id; bool operator==(const V& o) const { return h == o.h && id == o.id; } };
inline bool veq(const V& a, const V& b) { return a.h == b.h && a.id == b.id; }
typedef bool (*cmp_t)(V, V);  // (by value: the front end drops const from reference parameters of function-pointer types)
inline bool by_height(V a, V b) { return a.h < b.h; }
struct pair_t { K first; V second; pair_t() {} pair_t(const K& k, const V& v) : first(k), second(v) {} };
struct map_insert_result { pair_t* first; bool second; };
struct map_t {   // std::unordered_map<K,V>: distinct keys, stable element addresses are not relied upon after erase
  pair_t d_[CAP];
  size_t n_;
  map_t() : n_(0) {}
  pair_t* end() { return d_ + n_; }
  pair_t* begin() { return d_; }
  pair_t* find(const K& key) {
    for (size_t i = 0; i < n_; i++) if (d_[i].first == key) return d_ + i;
    return end();
  }
  map_insert_result insert(const pair_t& p) {
    map_insert_result r;
    pair_t* it = find(p.first);
    if (it != end()) { r.first = it; r.second = false; return r; }
    __CPROVER_assert(n_ < CAP, "MODEL: unordered_map capacity CAP");
    __CPROVER_assume(n_ < CAP);
    d_[n_] = p;
    r.first = d_ + n_;
    r.second = true;
    n_++;
    return r;
  }
  pair_t* erase(pair_t* it) {
    __CPROVER_assert(it >= d_ && it < d_ + n_, "unordered_map::erase: iterator dereferenceable");
    size_t i = (size_t)(it - d_);
    for (size_t j = i; j + 1 < n_; j++) d_[j] = d_[j + 1];
    n_--;
    return d_ + i;
  }
  size_t size() const { return n_; }
  bool empty() const { return n_ == 0; }
  void clear() { n_ = 0; }
};
struct set_range_t { V* first; V* second; };
struct set_t {   // std::multiset<V, cmp_t>: kept sorted by cmp_, equivalent elements in insertion order
  V d_[CAP];
  size_t n_;
  cmp_t cmp_;
  set_t(cmp_t c) : n_(0), cmp_(c) {}
  V* end() { return d_ + n_; }
  set_range_t equal_range(const V& v) {
    size_t lo = 0;
    while (lo < n_ && cmp_(d_[lo], v)) lo++;
    size_t hi = lo;
    while (hi < n_ && !cmp_(v, d_[hi])) hi++;
    set_range_t r; r.first = d_ + lo; r.second = d_ + hi;
    return r;
  }
  V* find(const V& v) {   // any element of the equivalence class may be returned
    set_range_t r = equal_range(v);
    if (r.first == r.second) return end();
    size_t pick = nondet_size_t();
    __CPROVER_assume(pick < (size_t)(r.second - r.first));
    return r.first + pick;
  }
  void erase(V* it) {
    __CPROVER_assert(it >= d_ && it < d_ + n_, "multiset::erase: iterator dereferenceable (erase(end()) is undefined behaviour)");
    __CPROVER_assume(it >= d_ && it < d_ + n_);
    size_t i = (size_t)(it - d_);
    for (size_t j = i; j + 1 < n_; j++) d_[j] = d_[j + 1];
    n_--;
  }
  void insert(const V& v) {
    __CPROVER_assert(n_ < CAP, "MODEL: multiset capacity CAP");
    __CPROVER_assume(n_ < CAP);
    size_t pos = 0;
    while (pos < n_ && !cmp_(v, d_[pos])) pos++;   // upper bound
    for (size_t j = n_; j > pos; j--) d_[j] = d_[j - 1];
    d_[pos] = v;
    n_++;
  }
  size_t size() const { return n_; }
  void clear() { n_ = 0; }
};
class ValueSortedMap {
 public:
  typedef pair_t* iterator_t;
  set_t set_;
  map_t map_;
#include "slices/ctor.inc"
#include "slices/erase_key.inc"
#include "slices/erase_it.inc"
#include "slices/insert.inc"
#include "slices/size.inc"
#include "slices/clear.inc"
#include "slices/empty.inc"
#include "slices/findInSet.inc"
};
}  // namespace altintegration
