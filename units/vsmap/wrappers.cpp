#include "prelude.hpp"
using namespace altintegration;
#define REACH __CPROVER_assert(0, "REACH: harness end is reachable (expected to fail)")
#define MN 0
#define SN 1
#define MK(i) (2 + (i))
#define MH(i) (2 + CAP + (i))
#define MID(i) (2 + 2 * CAP + (i))
#define SH(i) (2 + 3 * CAP + (i))
#define SID(i) (2 + 4 * CAP + (i))
#define NST (2 + 5 * CAP)
static void load(ValueSortedMap& m, const int* in) {
  m.map_.n_ = (size_t)in[MN];
  m.set_.n_ = (size_t)in[SN];
  for (int i = 0; i < CAP; i++) {
    m.map_.d_[i].first = in[MK(i)]; m.map_.d_[i].second.h = in[MH(i)]; m.map_.d_[i].second.id = in[MID(i)];
    m.set_.d_[i].h = in[SH(i)]; m.set_.d_[i].id = in[SID(i)];
  }
}
static void store(ValueSortedMap& m, int* out) {
  out[MN] = (int)m.map_.n_;
  out[SN] = (int)m.set_.n_;
  for (int i = 0; i < CAP; i++) {
    out[MK(i)] = m.map_.d_[i].first; out[MH(i)] = m.map_.d_[i].second.h; out[MID(i)] = m.map_.d_[i].second.id;
    out[SH(i)] = m.set_.d_[i].h; out[SID(i)] = m.set_.d_[i].id;
  }
}
extern "C" {
int nondet_int();
void* nondet_ptr();
void w_vs_insert(const int* in, int key, int h, int id, int* out, int gk) {
  ValueSortedMap m(by_height);
  load(m, in);
  V v; v.h = h; v.id = id;
  m.insert(key, v);
  store(m, out);
}
void h_vs_insert() { w_vs_insert((const int*)nondet_ptr(), nondet_int(), nondet_int(), nondet_int(), (int*)nondet_ptr(), nondet_int()); REACH; }
void w_vs_erase(const int* in, int key, int* out, int gk) {
  ValueSortedMap m(by_height);
  load(m, in);
  m.erase(key);
  store(m, out);
}
void h_vs_erase() { w_vs_erase((const int*)nondet_ptr(), nondet_int(), (int*)nondet_ptr(), nondet_int()); REACH; }
void w_vs_erase_it(const int* in, int idx, int* out, int gk) {
  ValueSortedMap m(by_height);
  load(m, in);
  pair_t* it = m.map_.begin() + idx;
  m.erase(it);
  store(m, out);
}
void h_vs_erase_it() { w_vs_erase_it((const int*)nondet_ptr(), nondet_int(), (int*)nondet_ptr(), nondet_int()); REACH; }
// returns size; *em = empty(); out = state after clear()
int w_vs_size_clear(const int* in, int* em, int* out) {
  ValueSortedMap m(by_height);
  load(m, in);
  int n = (int)m.size();
  *em = m.empty();
  m.clear();
  store(m, out);
  return n;
}
void h_vs_size_clear() { w_vs_size_clear((const int*)nondet_ptr(), (int*)nondet_ptr(), (int*)nondet_ptr()); REACH; }
}
