// native replay for unit mpsubmit: a counterexample of "never both" on the stateful-failure path of submit<ATV> / submit<VTB> (the payload was
// connected before, the stateless check passes, the stateful check fails) is turned into the history that produces exactly those
// verdicts on the REAL MemPool / AltBlockTree (test fixtures of /repo/test): submit(A) -> connected; a block containing A becomes the
// tip (removeAll not yet called); submit(A) again -> "atv-duplicate" (stateful).  REPRODUCED iff A is then in both maps.
#include <cstdio>
#include "pop/util/mempool_fixture.hpp"
#include "replay_inputs.hpp"
using namespace altintegration;
static bool g_reproduced = false;
TEST_F(MemPoolFixture, resubmit_connected_atv_after_it_went_on_chain) {
  mineAltBlocks(10, chain, /*connectBlocks=*/true, /*setState=*/false);
  AltBlock endorsedBlock = chain[5];
  VbkTx tx = popminer.createVbkTxEndorsingAltBlock(generatePublicationData(endorsedBlock));
  auto* block = popminer.mineVbkBlocks(1, {tx});
  ATV atv = popminer.createATV(block->getHeader(), tx);
  std::vector<VbkBlock> context;
  fillVbkContext(context, GetRegTestVbkBlock().getHash(), popminer.vbk());
  for (const auto& b : context) submitVBK(b);
  submitATV(atv);
  ASSERT_TRUE(alttree.setState(chain.back().getHash(), state));
  PopData popData = checkedGetPop();
  ASSERT_EQ(popData.atvs.size(), 1u);
  auto id = atv.getId();
  ASSERT_EQ(mempool.getMap<ATV>().count(id), 1u);
  applyInNextBlock(popData);
  auto res = mempool.submit(atv, true, state);
  printf("resubmit: status=%d state=%s\n", (int)res.status, state.toString().c_str());
  state.reset();
  bool connected = mempool.getMap<ATV>().count(id) == 1;
  bool inflight = mempool.getInFlightMap<ATV>().find(id) != mempool.getInFlightMap<ATV>().end();
  printf("connected=%d inflight=%d\n", (int)connected, (int)inflight);
  g_reproduced = connected && inflight;
}
TEST_F(MemPoolFixture, resubmit_connected_vtb_after_it_went_on_chain) {
  auto* vbkTip = popminer.mineVbkBlocks(65);
  const auto* endorsedVbkBlock = vbkTip->getAncestor(vbkTip->getHeight() - 10);
  auto vbkPopTx = generatePopTx(endorsedVbkBlock->getHeader());
  vbkTip = popminer.mineVbkBlocks(1, {vbkPopTx});
  auto vtb = popminer.createVTB(vbkTip->getHeader(), vbkPopTx);
  mineAltBlocks(10, chain, /*connectBlocks=*/true, /*setState=*/false);
  std::vector<VbkBlock> context;
  fillVbkContext(context, GetRegTestVbkBlock().getHash(), popminer.vbk());
  for (const auto& b : context) submitVBK(b);
  submitVTB(vtb);
  ASSERT_TRUE(alttree.setState(chain.back().getHash(), state));
  PopData popData = checkedGetPop();
  ASSERT_EQ(popData.vtbs.size(), 1u);
  auto id = vtb.getId();
  ASSERT_EQ(mempool.getMap<VTB>().count(id), 1u);
  applyInNextBlock(popData);
  auto res = mempool.submit(vtb, true, state);
  printf("resubmit: status=%d state=%s\n", (int)res.status, state.toString().c_str());
  state.reset();
  bool connected = mempool.getMap<VTB>().count(id) == 1;
  bool inflight = mempool.getInFlightMap<VTB>().find(id) != mempool.getInFlightMap<VTB>().end();
  printf("connected=%d inflight=%d\n", (int)connected, (int)inflight);
  g_reproduced = connected && inflight;
}
int main(int argc, char** argv) {
  ReplayInputs in;
  if (argc < 3 || !in.load(argv[1])) { printf("NOT-REPRODUCED: cannot read inputs\n"); return 2; }
  std::vector<uint8_t> b = in.bytes("in");
  if (b.size() < 28) { printf("NOT-REPRODUCED: no input array in the counterexample\n"); return 0; }
  long long v[7];
  for (int i = 0; i < 7; i++) v[i] = (long long)b[4 * i] | ((long long)b[4 * i + 1] << 8) | ((long long)b[4 * i + 2] << 16) | ((long long)b[4 * i + 3] << 24);
  long long kind = in.S("kind_wrapper", in.S("kind"));
  bool path = v[1] != 0 && v[2] == 0 && v[6] != 0 && v[5] == 0 && !(v[4] != 0 && v[0] != 0);
  if ((kind != 0 && kind != 1) || !path) { printf("NOT-REPRODUCED: no native history for this counterexample (kind=%lld)\n", kind); return 0; }
  int gargc = 2; char filt[128]; snprintf(filt, sizeof filt, "--gtest_filter=*resubmit_connected_%s_*", kind == 0 ? "atv" : "vtb");
  char* gargv[] = {argv[0], filt, nullptr};
  ::testing::InitGoogleTest(&gargc, gargv);
  int rc = RUN_ALL_TESTS();
  (void)rc;
  printf(g_reproduced ? "REPRODUCED: the payload is both connected and in flight after the re-submission\n" : "NOT-REPRODUCED: the real MemPool keeps the maps disjoint\n");
  return 0;
}
