/* C13: "every payload known to the mempool is either connected or in flight (never both, never lost)"; C12: only statelessly valid
 * payloads are kept.  in = {too old, stateless ok, stateful ok, known to the stable tree, doIsBlockOldCheck, in flight before, connected
 * before}; out = {status, in flight after, connected after, relation touched, signals, state valid}. */
#include <stddef.h>
#include <stdint.h>
/* CBMC bookkeeping global written by its `new` primitive */
extern const void* __CPROVER_new_object;
extern int g_old, g_stateless, g_stateful, g_known_stable;
#define OLD (in[0] != 0)
#define STATELESS_OK (in[1] != 0)
#define STATEFUL_OK (in[2] != 0)
#define KNOWN_STABLE (in[3] != 0)
#define DO_OLD (in[4] != 0)
#define INFLIGHT0 (in[5] != 0)
#define CONN0 (in[6] != 0)
/* VTBs are not subject to the age check */
#define REJ_OLD (kind != 1 && DO_OLD && OLD)
#define REJECTED (REJ_OLD || !STATELESS_OK)
void w_mpsubmit_c(int kind, const int32_t* in, int32_t* out)
__CPROVER_requires(kind >= 0 && kind <= 2 && __CPROVER_is_fresh(in, 7 * 4) && __CPROVER_is_fresh(out, 6 * 4))
/* the bookkeeping invariant on entry */
__CPROVER_requires(!(INFLIGHT0 && CONN0))
__CPROVER_assigns(__CPROVER_object_whole(out), g_old, g_stateless, g_stateful, g_known_stable, __CPROVER_new_object)
/* status: FAILED_STATELESS (2) if too old (when asked to check) or statelessly invalid; FAILED_STATEFUL (1) if it does not connect; VALID (0) otherwise */
__CPROVER_ensures(out[0] == (REJECTED ? 2 : !STATEFUL_OK ? 1 : 0))
__CPROVER_ensures((out[5] == 1) == (out[0] == 0))
/* a rejected payload changes nothing */
__CPROVER_ensures(!REJECTED || (out[1] == (INFLIGHT0 ? 1 : 0) && out[2] == (CONN0 ? 1 : 0) && out[3] == 0 && out[4] == 0))
/* never lost: a payload that passed the stateless checks is known afterwards */
__CPROVER_ensures(REJECTED || out[1] == 1 || out[2] == 1 || (kind == 2 && STATEFUL_OK && KNOWN_STABLE))
/* never both */
__CPROVER_ensures(!(out[1] == 1 && out[2] == 1))
/* connected exactly when the stateful check passed (a VBK block already in the stable tree needs no relation entry) */
__CPROVER_ensures(REJECTED || !STATEFUL_OK || (out[1] == 0 && (out[2] == 1 || (kind == 2 && KNOWN_STABLE && !CONN0))));
