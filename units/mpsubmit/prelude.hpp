// C13 ("every payload known to the mempool is either connected or in flight (never both, never lost)") / C12 ("passes the stateless
// checks"): the decision structure of MemPool::submit<ATV>, submit<VTB>, submit<VbkBlock> (src/pop/mempool.cpp). The stateless checkers,
// the mempool block tree, the maps and the relations are ghost models; the order of checks and the bookkeeping calls are the real code.
#include <cstdint>
#include <veriblock/pop/assert.hpp>
#include <veriblock/pop/validation_state.hpp>
// ghost verdicts of everything submit() consults
extern "C" { extern int g_old, g_stateless, g_stateful, g_known_stable; }
namespace altintegration {
struct IdShell { int v; };
struct ParamsShell { int dummy_; };
struct VbkBlock { int hash_; bool known_stable_; IdShell getId() const { IdShell i; i.v = 0; return i; } int getHash() const { return hash_; } };
struct ATV { VbkBlock blockOfProof; IdShell getId() const { IdShell i; i.v = 0; return i; } };
struct VTB { VbkBlock containingBlock; IdShell getId() const { IdShell i; i.v = 0; return i; } };
// ghost verdicts of everything submit() consults
inline bool checkATV(const ATV&, ValidationState& s, const ParamsShell&, const ParamsShell&) { return g_stateless ? true : s.Invalid("abstract-stateless"); }
inline bool checkVTB(const VTB&, ValidationState& s, const ParamsShell&, const ParamsShell&) { return g_stateless ? true : s.Invalid("abstract-stateless"); }
inline bool checkBlock(const VbkBlock&, ValidationState& s, const ParamsShell&) { return g_stateless ? true : s.Invalid("abstract-stateless"); }
struct StableShell { ParamsShell p_; VbkBlock dummy_; const ParamsShell& getParams() const { return const_cast<StableShell*>(this)->p_; } VbkBlock* getBlockIndex(int) { return g_known_stable ? &dummy_ : (VbkBlock*)0; } };
struct TempShell { StableShell st_; StableShell& getStableTree() { return st_; } const ParamsShell& getParams() const { return const_cast<TempShell*>(this)->st_.p_; } };
struct AltShell { ParamsShell p_; TempShell vbk_; const ParamsShell& getParams() const { return const_cast<AltShell*>(this)->p_; } TempShell& vbk() { return vbk_; } };
struct MemPoolTreeShell {
  AltShell alt_; TempShell vbk_, btc_;
  bool isBlockOld(const VbkBlock&) const { return g_old != 0; }
  AltShell& alt() { return alt_; }
  TempShell& vbk() { return vbk_; }
  TempShell& btc() { return btc_; }
  bool acceptATV(const ATV&, VbkBlock*, ValidationState& s) { return g_stateful ? true : s.Invalid("abstract-stateful"); }
  bool acceptVTB(const VTB&, VbkBlock*, ValidationState& s) { return g_stateful ? true : s.Invalid("abstract-stateful"); }
  bool acceptVbkBlock(VbkBlock*, ValidationState& s) { return g_stateful ? true : s.Invalid("abstract-stateful"); }
};
// one payload under observation: membership flags of the in-flight map, the connected map and the relation
struct InFlightShell { bool in_; void insert(const IdShell&, ATV*) { in_ = true; } void insert(const IdShell&, VTB*) { in_ = true; } void insert(const IdShell&, VbkBlock*) { in_ = true; } void erase(const IdShell&) { in_ = false; } };
struct SignalShell { unsigned n_; void emit(const ATV&) { n_++; } void emit(const VTB&) { n_++; } void emit(const VbkBlock&) { n_++; } };
struct RelSetShell { bool has_; void insert(ATV*) { has_ = true; } void push_back(VTB*) { has_ = true; } };
struct VbkPayloadsRelations { RelSetShell atvs, vtbs; };
struct ConnMapShell { bool in_; void* slot_; size_t count(const IdShell&) const { return in_ ? 1 : 0; } void*& operator[](const IdShell&) { in_ = true; return slot_; } };   // stored_atvs_ / stored_vtbs_ / vbkblocks_: membership of the observed payload
struct MemPool {
  enum Status { VALID = 0, FAILED_STATEFUL = 1, FAILED_STATELESS = 2 };
  struct SubmitResult {   // mempool.hpp: by default VALID; (Status, bool) keeps the status; (bool) asserts true
    Status status;
    SubmitResult() : status(VALID) {}
    SubmitResult(bool state) : status(VALID) { VBK_ASSERT_MSG(state, "SubmitResult can be implicitly constructed from bool=true"); }
    SubmitResult(Status s, bool) : status(s) {}
  };
  MemPoolTreeShell mempool_tree_;
  InFlightShell atvs_in_flight_, vtbs_in_flight_, vbkblocks_in_flight_;
  ConnMapShell stored_atvs_, stored_vtbs_, vbkblocks_;
  bool relation_;             // a VbkPayloadsRelations entry exists for the observed VBK block
  VbkPayloadsRelations rel_;
  SignalShell on_atv_accepted, on_vtb_accepted, on_vbkblock_accepted;
  // mempool.cpp getOrPutVbkRelation: vbkblocks_.insert({id, block}); relations_[id] created if absent
  VbkPayloadsRelations& getOrPutVbkRelation(VbkBlock*) { vbkblocks_.in_ = true; relation_ = true; return rel_; }
  // mempool.cpp: getMap<T>() / getInFlightMap<T>() / getSignal<T>() specialisations (which member each type maps to)
  ConnMapShell& getMapMut_ATV() { return stored_atvs_; }
  ConnMapShell& getMapMut_VTB() { return stored_vtbs_; }
  InFlightShell& getInFlightMapMut_ATV() { return atvs_in_flight_; }
  InFlightShell& getInFlightMapMut_VTB() { return vtbs_in_flight_; }
  SignalShell& getSignal_ATV() { return on_atv_accepted; }
  SignalShell& getSignal_VTB() { return on_vtb_accepted; }
  // makePayloadConnected<T> sliced from mempool.hpp, instantiated textually for ATV and VTB
#include "slices/makePayloadConnected_ATV.inc"
#include "slices/makePayloadConnected_VTB.inc"
  SubmitResult submit_ATV(ATV* atv, bool doIsBlockOldCheck, ValidationState& state);
  SubmitResult submit_VTB(VTB* vtb, bool, ValidationState& state);
  SubmitResult submit_VbkBlock(VbkBlock* blk, bool doIsBlockOldCheck, ValidationState& state);
};
#include "slices/submit_ATV.inc"
#include "slices/submit_VTB.inc"
#include "slices/submit_VbkBlock.inc"
}  // namespace altintegration
