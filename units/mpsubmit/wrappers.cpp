#include "prelude.hpp"
using namespace altintegration;
#define REACH __CPROVER_assert(0, "REACH: harness end is reachable (expected to fail)")
extern "C" {
int g_old, g_stateless, g_stateful, g_known_stable;
int nondet_int();
void* nondet_ptr();
// kind 0 ATV, 1 VTB, 2 VbkBlock; in = {too old, stateless ok, stateful ok, block known to the stable tree, doIsBlockOldCheck, in flight before, connected before}
// out = {status, in flight after, connected after, relation entry touched, accepted-signal emissions, state valid}
void w_mpsubmit(int kind, const int32_t* in, int32_t* out) {
  g_old = in[0]; g_stateless = in[1]; g_stateful = in[2]; g_known_stable = in[3];
  MemPool m;
  m.atvs_in_flight_.in_ = m.vtbs_in_flight_.in_ = m.vbkblocks_in_flight_.in_ = in[5] != 0;
  m.stored_atvs_.in_ = m.stored_vtbs_.in_ = m.vbkblocks_.in_ = in[6] != 0; m.relation_ = false; m.rel_.atvs.has_ = false; m.rel_.vtbs.has_ = false;
  m.on_atv_accepted.n_ = m.on_vtb_accepted.n_ = m.on_vbkblock_accepted.n_ = 0;
  ValidationState st;
  MemPool::SubmitResult r;
  ATV a; VTB v; VbkBlock b;
  a.blockOfProof.hash_ = 1; v.containingBlock.hash_ = 1; b.hash_ = 1;
  if (kind == 0) r = m.submit_ATV(&a, in[4] != 0, st);
  else if (kind == 1) r = m.submit_VTB(&v, in[4] != 0, st);
  else r = m.submit_VbkBlock(&b, in[4] != 0, st);
  out[0] = (int32_t)r.status;
  out[1] = (kind == 0 ? m.atvs_in_flight_.in_ : kind == 1 ? m.vtbs_in_flight_.in_ : m.vbkblocks_in_flight_.in_) ? 1 : 0;
  out[2] = (kind == 0 ? m.stored_atvs_.in_ : kind == 1 ? m.stored_vtbs_.in_ : m.vbkblocks_.in_) ? 1 : 0;
  out[3] = (m.relation_ || m.rel_.atvs.has_ || m.rel_.vtbs.has_) ? 1 : 0;
  out[4] = (int32_t)(m.on_atv_accepted.n_ + m.on_vtb_accepted.n_ + m.on_vbkblock_accepted.n_);
  out[5] = st.IsValid() ? 1 : 0;
}
void h_mpsubmit() { w_mpsubmit(nondet_int(), (const int32_t*)nondet_ptr(), (int32_t*)nondet_ptr()); REACH; }
}
