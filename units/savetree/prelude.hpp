// C10: "each saveAllTrees call only writes what changed since the previous one ... stopping between two saves loses only the unsaved
// tail" - saveTree (include/veriblock/pop/storage/util.hpp): every dirty block of the tree (deleted ones included) is validated, written
// once and marked clean; clean blocks are not written; the tip is written; blocks are written by non-increasing height.
#include <cstdint>
#include <vector>
#include <algorithm>
#include <veriblock/pop/assert.hpp>
#define NB 4
namespace altintegration {
struct IdxShell {
  int id_; int32_t height; bool dirty; bool deleted;
  bool isDirty() const { return dirty; }
  void unsetDirty() { dirty = false; }
  bool isDeleted() const { return deleted; }
  int32_t getHeight() const { return height; }
  int getHash() const { return id_; }
  int toStoredBlockIndex() const { return id_; }
};
struct TipChainShell { IdxShell* tip_; IdxShell* tip() const { return const_cast<TipChainShell*>(this)->tip_; } };
struct TreeShell {
  typedef IdxShell index_t;
  IdxShell* all_[NB]; int n_; TipChainShell best_;
  // base_block_tree.hpp: getAllBlocks() = every block, getBlocks() = the blocks that are not deleted
  std::vector<IdxShell*> getAllBlocks() const { std::vector<IdxShell*> v; for (int i = 0; i < NB; i++) if (i < n_) v.push_back(const_cast<TreeShell*>(this)->all_[i]); return v; }
  std::vector<IdxShell*> getBlocks() const { std::vector<IdxShell*> v; for (int i = 0; i < NB; i++) if (i < n_ && !all_[i]->isDeleted()) v.push_back(const_cast<TreeShell*>(this)->all_[i]); return v; }
  int makePrevHash(int h) const { return h; }
  const TipChainShell& getBestChain() const { return const_cast<TreeShell*>(this)->best_; }
};
struct BlockBatch {   // ghost trace of the writes
  int w_[NB + 1]; int n_; int tip_;
  void writeBlock(int hash, int prev, int stored) { __CPROVER_assert(n_ < NB + 1 && hash == prev && hash == stored, "MODEL: batch trace"); w_[n_++] = hash; }
  void writeTip(int hash) { tip_ = hash; }
};
struct ValidatorShell { unsigned calls_[NB]; void operator()(const IdxShell& i) const { const_cast<ValidatorShell*>(this)->calls_[i.id_]++; } };
typedef IdxShell index_t;
#include "slices/by_height_desc.inc"
#include "slices/saveTree.inc"
}  // namespace altintegration
