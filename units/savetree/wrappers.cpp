#include "prelude.hpp"
using namespace altintegration;
#define REACH __CPROVER_assert(0, "REACH: harness end is reachable (expected to fail)")
extern "C" {
void* nondet_ptr();
// in: [0] n, [1] tip id, then per block i: {height, dirty, deleted} at [2 + 3i ..]
// out: [0] number of writes, [1] tip written, per block i at [2 + 3i ..]: {times written, validator calls, dirty afterwards}, [14..18) the write trace
void w_savetree(const int32_t* in, int32_t* out) {
  static IdxShell b[NB];
  TreeShell t; BlockBatch batch; ValidatorShell val;
  t.n_ = in[0];
  for (int i = 0; i < NB; i++) { b[i].id_ = i; b[i].height = in[2 + 3 * i]; b[i].dirty = in[3 + 3 * i] != 0; b[i].deleted = in[4 + 3 * i] != 0; t.all_[i] = &b[i]; val.calls_[i] = 0; }
  t.best_.tip_ = &b[in[1]];
  batch.n_ = 0; batch.tip_ = -1;
  saveTree(t, batch, val);
  out[0] = batch.n_; out[1] = batch.tip_;
  for (int i = 0; i < NB; i++) {
    int c = 0;
    for (int k = 0; k < NB + 1; k++) if (k < batch.n_ && batch.w_[k] == i) c++;
    out[2 + 3 * i] = c; out[3 + 3 * i] = (int32_t)val.calls_[i]; out[4 + 3 * i] = b[i].dirty ? 1 : 0;
    out[14 + i] = i < batch.n_ ? batch.w_[i] : -1;
  }
}
void h_savetree() { w_savetree((const int32_t*)nondet_ptr(), (int32_t*)nondet_ptr()); REACH; }
}
