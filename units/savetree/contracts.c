/* C10: saveTree writes what changed since the previous save - exactly the dirty blocks, including temporarily deleted ones - and
 * clears their dirty flags, so the next call writes only what changed afterwards. */
#include <stddef.h>
#include <stdint.h>
#define NB 4
#define N in[0]
#define HT(i) in[2 + 3 * (i)]
#define DIRTY(i) ((i) < N && in[3 + 3 * (i)] != 0)
#define WR(i) out[2 + 3 * (i)]
#define VAL(i) out[3 + 3 * (i)]
#define DAFTER(i) out[4 + 3 * (i)]
#define CNT ((DIRTY(0) ? 1 : 0) + (DIRTY(1) ? 1 : 0) + (DIRTY(2) ? 1 : 0) + (DIRTY(3) ? 1 : 0))
#define TR(k) out[14 + (k)]
#define HTR(k) HT(TR(k) < 0 ? 0 : TR(k))
void w_savetree_c(const int32_t* in, int32_t* out)
__CPROVER_requires(__CPROVER_is_fresh(in, 14 * 4) && __CPROVER_is_fresh(out, 18 * 4))
__CPROVER_requires(N >= 1 && N <= NB && in[1] >= 0 && in[1] < N)
__CPROVER_assigns(__CPROVER_object_whole(out))
/* exactly the dirty blocks are written, once each, each validated once */
__CPROVER_ensures(out[0] == CNT)
__CPROVER_ensures(WR(0) == (DIRTY(0) ? 1 : 0) && WR(1) == (DIRTY(1) ? 1 : 0) && WR(2) == (DIRTY(2) ? 1 : 0) && WR(3) == (DIRTY(3) ? 1 : 0))
__CPROVER_ensures(VAL(0) == WR(0) && VAL(1) == WR(1) && VAL(2) == WR(2) && VAL(3) == WR(3))
/* every block of the tree is clean afterwards */
__CPROVER_ensures((0 >= N || DAFTER(0) == 0) && (1 >= N || DAFTER(1) == 0) && (2 >= N || DAFTER(2) == 0) && (3 >= N || DAFTER(3) == 0))
/* the tip is recorded */
__CPROVER_ensures(out[1] == in[1])
/* written by non-increasing height */
__CPROVER_ensures((out[0] < 2 || HTR(0) >= HTR(1)) && (out[0] < 3 || HTR(1) >= HTR(2)) && (out[0] < 4 || HTR(2) >= HTR(3)));
