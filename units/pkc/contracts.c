/* C03: "per keystone the earliest publication on the best security-providing chain among endorsements of the keystone period that
 * are contained in the same chain".  Layout of in[] as documented in wrappers.cpp (KI = 2, CH = 5). */
#include <stddef.h>
#include <stdint.h>
#ifndef KI
#define KI 2
#endif
#define CH 5
#define NONE 2147483647
#define FIRST in[0]
#define N in[1]
#define KS in[2]
#define TS_ED(p) in[3 + (p)]
#define BFIRST in[10]
#define BL in[11]
#define TS_ING(g) ((uint32_t)in[13 + (g)])
#define ETA (in[17] != 0)
#define EX(p, j) (in[18 + 3 * (2 * (p) + (j))] != 0)
#define CONT(p, j) in[18 + 3 * (2 * (p) + (j)) + 1]
#define BOP(p, j) in[18 + 3 * (2 * (p) + (j)) + 2]
/* timestamp of the keystone block */
#define TSK ((uint32_t)in[3 + (KS - FIRST)])
/* publication height of protecting block g (on the best chain: g < BL, height BFIRST + g), adjusted forward to the first later
 * best-chain block whose timestamp exceeds the keystone's when time adjustment is on and g's own timestamp does not */
#define LATER(a) ((a) < BL && TSK < TS_ING((a) < 3 ? (a) : 2))
#define ADJ1(g) (LATER((g) + 1) ? BFIRST + (g) + 1 : LATER((g) + 2) ? BFIRST + (g) + 2 : NONE)
#define ADJ(g) ((!ETA || TSK < TS_ING(g)) ? BFIRST + (g) : ADJ1(g))
/* endorsement j of chain block p counts for the keystone */
#define COUNTS(p, j) (EX(p, j) && (p) < N && FIRST + (p) >= KS && FIRST + (p) <= KS + KI + 1 && CONT(p, j) >= 0 && CONT(p, j) < N && BOP(p, j) >= 0 && BOP(p, j) < BL)
#define PUB(p, j) (COUNTS(p, j) ? ADJ(BOP(p, j) < 3 ? BOP(p, j) : 0) : NONE)
/* m is the minimum of the ten candidate publications (NONE if none counts): a lower bound that is attained */
#define LOWER(m) ((m) <= PUB(0, 0) && (m) <= PUB(0, 1) && (m) <= PUB(1, 0) && (m) <= PUB(1, 1) && (m) <= PUB(2, 0) && (m) <= PUB(2, 1) && (m) <= PUB(3, 0) && (m) <= PUB(3, 1) && (m) <= PUB(4, 0) && (m) <= PUB(4, 1))
#define ATTAINED(m) ((m) == NONE || (m) == PUB(0, 0) || (m) == PUB(0, 1) || (m) == PUB(1, 0) || (m) == PUB(1, 1) || (m) == PUB(2, 0) || (m) == PUB(2, 1) || (m) == PUB(3, 0) || (m) == PUB(3, 1) || (m) == PUB(4, 0) || (m) == PUB(4, 1))
void w_pkc_c(const int32_t* in, int32_t* out)
__CPROVER_requires(__CPROVER_is_fresh(in, 48 * 4) && __CPROVER_is_fresh(out, 2 * 4))
/* the protected chain holds the keystone (precondition asserted by the code: chain[keystone] is dereferenced, tip != nullptr) */
/* heights are harness parameters (one harness per (first, keystone) pair) */
__CPROVER_requires(FIRST == FK / 100 && KS == FK % 100 && BFIRST == BFIRST_C)
__CPROVER_requires(FIRST >= 0 && FIRST <= 1000000 && N >= 1 && N <= CH && KS >= FIRST && KS < FIRST + N && KS % KI == 0)
__CPROVER_requires(in[8] >= 0 && in[8] <= 1000010 && in[9] >= 0 && in[9] <= 1000010)
__CPROVER_requires(BFIRST >= 0 && BFIRST <= 1000000 && BL >= 0 && BL <= 3 && in[12] >= 0 && in[12] <= 1000010)
/* applied endorsements name known blocks (the code asserts both lookups): containing id in [0, CH+2), block of proof id in [0, 4);
 * a block's second endorsement slot is used only after its first */
__CPROVER_requires(CONT(0, 0) >= 0 && CONT(0, 0) < CH + 2 && BOP(0, 0) >= 0 && BOP(0, 0) < 4 && CONT(0, 1) >= 0 && CONT(0, 1) < CH + 2 && BOP(0, 1) >= 0 && BOP(0, 1) < 4)
__CPROVER_requires(CONT(1, 0) >= 0 && CONT(1, 0) < CH + 2 && BOP(1, 0) >= 0 && BOP(1, 0) < 4 && CONT(1, 1) >= 0 && CONT(1, 1) < CH + 2 && BOP(1, 1) >= 0 && BOP(1, 1) < 4)
__CPROVER_requires(CONT(2, 0) >= 0 && CONT(2, 0) < CH + 2 && BOP(2, 0) >= 0 && BOP(2, 0) < 4 && CONT(2, 1) >= 0 && CONT(2, 1) < CH + 2 && BOP(2, 1) >= 0 && BOP(2, 1) < 4)
__CPROVER_requires(CONT(3, 0) >= 0 && CONT(3, 0) < CH + 2 && BOP(3, 0) >= 0 && BOP(3, 0) < 4 && CONT(3, 1) >= 0 && CONT(3, 1) < CH + 2 && BOP(3, 1) >= 0 && BOP(3, 1) < 4)
__CPROVER_requires(CONT(4, 0) >= 0 && CONT(4, 0) < CH + 2 && BOP(4, 0) >= 0 && BOP(4, 0) < 4 && CONT(4, 1) >= 0 && CONT(4, 1) < CH + 2 && BOP(4, 1) >= 0 && BOP(4, 1) < 4)
__CPROVER_assigns(__CPROVER_object_whole(out))
__CPROVER_ensures(out[0] == KS)
__CPROVER_ensures(LOWER(out[1]))
__CPROVER_ensures(ATTAINED(out[1]));
