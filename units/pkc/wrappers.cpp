#include "prelude.hpp"
using namespace altintegration;
using namespace altintegration::internal;
#define REACH __CPROVER_assert(0, "REACH: harness end is reachable (expected to fail)")
extern "C" {
void* nondet_ptr();
// in: [0] first height of the protected chain, [1] its length n, [2] keystone height, [3..3+CH) timestamps of the chain blocks,
// [8..10) heights of the two off-chain protected blocks, [10] first height of the best protecting chain, [11] its length BL (blocks
// 0..BL-1), [12] height of protecting block 3 (never on the best chain), [13..17) protecting timestamps, [17] EnableTimeAdjustment,
// [18 + 3*(2*p + j) ..] endorsement j of chain block p: {exists, containing block id (0..CH-1 chain position, CH.. off-chain), block of proof id}
// (layout is for KI = 2, CH = 5)
// The heights of the protected chain (first block, keystone) and of the protecting best chain are harness parameters (FK = 100*first +
// keystone, BFIRST_C): the contract requires in[0], in[2], in[10] to equal them - chain positions are then concrete for the solver.
#define FIRST_C (FK / 100)
#define KS_C (FK % 100)
void w_pkc(const int32_t* in, int32_t* out) {
  static EdIndex eb[CH + OFF];
  static IngIndex ib[IB];
  static EndorsementShell es[CH][2];
  EdChain chain; EdTree ed; IngTree ing; EdParams cfg;
  cfg.ki = KI;
  chain.first = FIRST_C; chain.n = in[1];
  for (int p = 0; p < CH; p++) { eb[p].height = FIRST_C + p; eb[p].ts = (uint32_t)in[3 + p]; chain.blk[p] = &eb[p]; ed.all[p] = &eb[p]; }
  for (int q = 0; q < OFF; q++) { eb[CH + q].height = in[8 + q]; eb[CH + q].ts = 0; ed.all[CH + q] = &eb[CH + q]; }
  for (int g = 0; g < IB; g++) { ib[g].height = g < 3 ? BFIRST_C + g : in[12]; ib[g].ts = (uint32_t)in[13 + g]; ing.all[g] = &ib[g]; ing.best.blk[g] = &ib[g]; }
  ing.best.first = BFIRST_C; ing.best.n = in[11]; ing.params.eta = in[17] != 0;
  for (int p = 0; p < CH; p++)
    for (int j = 0; j < 2; j++) {
      const int32_t* e = in + 18 + 3 * (2 * p + j);
      if (e[0] != 0) { es[p][j].containingHash = e[1]; es[p][j].blockOfProof = e[2]; eb[p].endorsedBy.push_back(&es[p][j]); }
    }
  ProtoKeystoneContext pkc = getProtoKeystoneContext(KS_C, chain, ed, ing, cfg);
  KeystoneContext kc = getKeystoneContext(pkc, ing);
  out[0] = kc.blockHeight;
  out[1] = kc.firstBlockPublicationHeight;
}
void h_pkc() { w_pkc((const int32_t*)nondet_ptr(), (int32_t*)nondet_ptr()); REACH; }
}
