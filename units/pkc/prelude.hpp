// C03: which endorsements count for a keystone and what its earliest publication is - getProtoKeystoneContext and getKeystoneContext
// sliced from include/veriblock/pop/blockchain/pop/fork_resolution.hpp (templates instantiated textually), with ProtoKeystoneContext,
// KeystoneContext, NO_ENDORSEMENT and the keystone helpers they call. The protected chain, the protected tree's block lookup, the
// protecting tree's block lookup and its best chain are models (array lookups) whose semantics are those proved for Chain (unit chain).
#include <cstdint>
#include <limits>
#include <vector>
#include <algorithm>
#include <veriblock/pop/assert.hpp>
#ifndef KI
#define KI 2
#endif
#define CH (KI + 3)   /* protected chain blocks */
#define OFF 2         /* protected blocks outside the chain */
#define IB 4          /* protecting blocks: 0..2 may form the best chain, 3 is never on it */
#define SETMAX 4   /* = IB: the set holds distinct protecting blocks */
namespace altintegration {
#include "slices/isKeystone.inc"
#include "slices/highestBlockWhichConnectsKeystoneToPrevious.inc"
struct EndorsementShell { int containingHash; int blockOfProof; };
struct EdIndex {
  int32_t height; uint32_t ts;
  std::vector<EndorsementShell*> endorsedBy;
  int32_t getHeight() const { return height; }
  uint32_t getTimestamp() const { return ts; }
  const std::vector<EndorsementShell*>& getEndorsedBy() const { return const_cast<EdIndex*>(this)->endorsedBy; }
};
struct IngIndex {
  int32_t height; uint32_t ts;
  int32_t getHeight() const { return height; }
  uint32_t getTimestamp() const { return ts; }
};
// a chain: one block per height first..first+n-1 (operator[] / contains / tip as proved for Chain and ChainSlice)
template <class I, int CAP> struct ChainModel {
  I* blk[CAP]; int32_t first; int32_t n;
  I* operator[](int32_t h) const { return (h < first || h >= first + n) ? (I*)0 : const_cast<ChainModel*>(this)->blk[h - first]; }
  I* tip() const { return n == 0 ? (I*)0 : const_cast<ChainModel*>(this)->blk[n - 1]; }
  bool contains(const I* p) const { return p != 0 && (*this)[p->getHeight()] == p; }
  int32_t chainHeight() const { return first + n - 1; }
};
typedef ChainModel<EdIndex, CH> EdChain;
typedef ChainModel<IngIndex, IB> IngChain;
struct EdTree { EdIndex* all[CH + OFF]; EdIndex* getBlockIndex(int hash) const { return (hash < 0 || hash >= CH + OFF) ? (EdIndex*)0 : const_cast<EdTree*>(this)->all[hash]; } };
struct IngParams { bool eta; bool EnableTimeAdjustment() const { return eta; } };
struct IngTree {
  IngIndex* all[IB]; IngChain best; IngParams params;
  IngIndex* getBlockIndex(int hash) const { return (hash < 0 || hash >= IB) ? (IngIndex*)0 : const_cast<IngTree*>(this)->all[hash]; }
  const IngChain& getBestChain() const { return const_cast<IngTree*>(this)->best; }
  const IngParams& getParams() const { return const_cast<IngTree*>(this)->params; }
};
struct EdParams { uint32_t ki; uint32_t getKeystoneInterval() const { return ki; } };
// std::set<const BlockIndex*>: membership + iteration. Iteration is in insertion order here, in address order in the library; the
// postcondition proved for getKeystoneContext (a minimum) does not depend on the order.
struct PtrSet {
  IngIndex* d_[SETMAX]; size_t n_;   // (pointer-to-const array elements are mis-typed by the front end)
  PtrSet() : n_(0) {}
  void insert(const IngIndex* v) {
    for (size_t i = 0; i < SETMAX; i++) if (i < n_ && d_[i] == v) return;
    __CPROVER_assert(n_ < SETMAX, "MODEL: set capacity");
    __CPROVER_assume(n_ < SETMAX);
    d_[n_++] = const_cast<IngIndex*>(v);
  }
  size_t size() const { return n_; }
  const IngIndex* at_(size_t i) const { return const_cast<PtrSet*>(this)->d_[i]; }
};
namespace internal {
#include "slices/ProtoKeystoneContext.inc"
;
#include "slices/KeystoneContext.inc"
;
#include "slices/NO_ENDORSEMENT.inc"
#include "slices/getKeystoneContext.inc"
#include "slices/getProtoKeystoneContext.inc"
}  // namespace internal
}  // namespace altintegration
