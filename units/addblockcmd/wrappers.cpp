#include "prelude.hpp"
using namespace altintegration;
#define REACH __CPROVER_assert(0, "REACH: harness end is reachable (expected to fail)")
#define RMAX 3
extern "C" {
void* g_endorse_cmd = 0;
int nondet_int();
void* nondet_ptr();
// tree state s = per slot k in {0,1}: {present, n, refs[0..3)}  (5 ints per slot)
static void load_tree(BtcTree& t, const int32_t* s) {
  for (int k = 0; k < TREEMAX; k++) {
    t.slot_[k].present_ = s[5 * k] != 0;
    t.slot_[k].dirty_ = false;
    for (int i = 0; i < s[5 * k + 1] && i < RMAX; i++) t.slot_[k].refs.push_back(s[5 * k + 2 + i]);
  }
  t.removed_ = 0;
}
static void store_tree(const BtcTree& t, int32_t* s) {
  for (int k = 0; k < TREEMAX; k++) {
    bool p = t.slot_[k].present_;
    s[5 * k] = p ? 1 : 0;
    s[5 * k + 1] = p ? (int32_t)t.slot_[k].refs.size() : 0;
    for (int i = 0; i < RMAX; i++) s[5 * k + 2 + i] = (p && (size_t)i < t.slot_[k].refs.size()) ? t.slot_[k].refs.data()[i] : 0;
  }
  s[5 * TREEMAX] = t.removed_;
}
// op 0: Execute; 1: UnExecute; 2: Execute, then (if it succeeded) UnExecute.  Returns Execute's verdict (1 for op 1).
int w_addblock_exec(const int32_t* in, int op, int hash, int32_t ref, int accept, int32_t* out) {
  BtcTree t;
  load_tree(t, in);
  t.accept_verdict_ = accept != 0;
  BtcBlock* b = new BtcBlock();
  b->hash_ = hash;
  AddBlock cmd(t, b, ref);
  ValidationState st;
  bool ok = true;
  if (op == 0 || op == 2) {
    ok = cmd.Execute(st);
    __CPROVER_assert(ok == st.IsValid(), "Execute's verdict agrees with the ValidationState");
  }
  if (op == 1 || (op == 2 && ok)) cmd.UnExecute();
  store_tree(t, out);
  return ok ? 1 : 0;
}
void h_addblock_exec() { w_addblock_exec((const int32_t*)nondet_ptr(), nondet_int(), nondet_int(), nondet_int(), nondet_int(), (int32_t*)nondet_ptr()); REACH; }

// VTB with nctx context blocks (hashes 10, 11, ..), block of proof hash 50, contained in a VBK block of height hc, endorsing a VBK
// block of height hp. out = {number of commands, recorded height of command gi, block hash of command gi, command gi's tree is
// tree.btc(), last command is the endorsement command, endorsement built from this VTB}
void w_vtb_cmds(int nctx, int32_t hc, int32_t hp, int gi, int32_t* out) {
  VbkBlockTree tree;
  VTB v;
  for (int i = 0; i < nctx; i++) { BtcBlock b; b.hash_ = 10 + i; v.transaction.blockOfProofContext.push_back(b); }
  v.transaction.blockOfProof.hash_ = 50;
  v.transaction.publishedBlock.height_ = hp;
  v.containingBlock.height_ = hc;
  std::vector<CommandPtr> cmds;
  std::vector<uint8_t> ignore;
  g_endorse_cmd = 0;
  payloadToCommands(tree, v, ignore, cmds);
  out[0] = (int32_t)cmds.size();
  out[1] = 0; out[2] = 0; out[3] = 0;
  if (gi >= 0 && (size_t)gi < cmds.size() && gi <= nctx) {
    AddBlock* a = static_cast<AddBlock*>(cmds[gi]);
    out[1] = a->referencedAtHeight_;
    out[2] = a->block_->hash_;
    out[3] = a->tree_ == &tree.btc() ? 1 : 0;
  }
  out[4] = (cmds.size() > 0 && (void*)cmds[cmds.size() - 1] == g_endorse_cmd && g_endorse_cmd != 0) ? 1 : 0;
  out[5] = out[4] ? static_cast<AddVbkEndorsement*>(cmds[cmds.size() - 1])->e_.of_ : 0;
}
void h_vtb_cmds() { w_vtb_cmds(nondet_int(), nondet_int(), nondet_int(), nondet_int(), (int32_t*)nondet_ptr()); REACH; }
}
