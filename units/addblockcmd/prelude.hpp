// C02 / C04 / C20: the AddBlock command (addblock.hpp: Execute adds one reference at `referencedAtHeight` to the SP block, creating the
// block if unknown; UnExecute removes that reference and removes the block once nothing references it), the addBlock() helper and
// payloadToCommands(VbkBlockTree, VTB) from commands.cpp (every BTC context block and the block of proof is referenced at the height of
// the VBK block CONTAINING the VTB). BtcBlockAddon's reference list is the real code (slices shared with unit btcaddon).
// The SP tree is abstract: at most TREEMAX known hashes (0..TREEMAX-1), acceptBlockHeader returns an arbitrary verdict.
#include <cstdint>
#include <vector>
#include <algorithm>
#include <veriblock/pop/assert.hpp>
#include <veriblock/pop/validation_state.hpp>
#ifndef TREEMAX
#define TREEMAX 2
#endif
extern "C" { extern void* g_endorse_cmd; }
namespace altintegration {
using std::find;
struct BtcBlockAddon {
  typedef int32_t ref_height_t;
  std::vector<ref_height_t> refs;
  bool dirty_;
  void setDirty() { dirty_ = true; }
  void setIsBootstrap(bool isBootstrap);
  uint32_t refCount() const;
  void addRef(ref_height_t referencedAtHeight);
  void removeRef(ref_height_t referencedAtHeight);
  void clearRefs();
};
#include "slices/refCount.inc"
#include "slices/addRef.inc"
#include "slices/removeRef.inc"
struct BtcBlock {   // shell: identity only
  int hash_;
  const int& getHash() const { return const_cast<BtcBlock*>(this)->hash_; }
};
struct BtcChainParams {};
struct BtcIndex : public BtcBlockAddon { bool present_; };
struct BtcTree {
  typedef BtcBlock block_t;
  typedef BtcChainParams params_t;
  typedef BtcIndex index_t;
  typedef int hash_t;
  index_t slot_[TREEMAX];
  bool accept_verdict_;
  int removed_;
  index_t* getBlockIndex(const hash_t& h) { return (h >= 0 && h < TREEMAX && slot_[h].present_) ? &slot_[h] : (index_t*)0; }
  bool acceptBlockHeader(BtcBlock* b, ValidationState& state) {
    if (!accept_verdict_) return state.Invalid("abstract-tree-rejects-header");
    __CPROVER_assert(b->hash_ >= 0 && b->hash_ < TREEMAX, "MODEL: block hash within the abstract tree");
    slot_[b->hash_].present_ = true;
    slot_[b->hash_].refs.clear();
    return true;
  }
  void removeLeaf(index_t& i) { i.present_ = false; removed_++; }
};
inline void assertBlockCanBeRemoved(const BtcIndex&) {}
struct Command { int tag_; };
typedef Command* CommandPtr;
typedef BtcBlock Block;
typedef BtcChainParams ChainParams;
#include "slices/AddBlock.inc"
;
#include "slices/addBlock.inc"

// shells for payloadToCommands(VbkBlockTree&, const VTB&, ...)
struct VbkBlockShell { int32_t height_; int32_t getHeight() const { return height_; } };
struct VbkPopTxShell { std::vector<BtcBlock> blockOfProofContext; BtcBlock blockOfProof; VbkBlockShell publishedBlock; };
struct VTB { VbkPopTxShell transaction; VbkBlockShell containingBlock; };
struct VbkBlockTree { BtcTree btc_; BtcTree& btc() { return btc_; } };
struct VbkEndorsement { int of_; static VbkEndorsement fromContainerPtr(const VTB& v) { VbkEndorsement e; e.of_ = v.transaction.blockOfProof.hash_; return e; } };
struct AddVbkEndorsement : public Command {
  BtcTree* btc_; VbkBlockTree* vbk_; VbkEndorsement e_;
  AddVbkEndorsement(BtcTree& b, VbkBlockTree& v, VbkEndorsement e) : btc_(&b), vbk_(&v), e_(e) { tag_ = 777; g_endorse_cmd = this; }
};
#include "slices/payloadToCommands_vtb.inc"
}  // namespace altintegration
