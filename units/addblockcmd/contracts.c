/* C02 ("a failed or rolled-back command group leaves the trees as before": UnExecute is the exact inverse of Execute for the AddBlock
 * command), C04/C20 ("BTC context of a VTB is referenced at the height of the VBK block that CONTAINS the VTB" - the heights recorded
 * here are what removal of a VBK block later un-references, and what decides whether an SP block may disappear).
 * Tree state = per slot k: {present, n, refs[0..3)}; [5*TREEMAX] = number of removeLeaf calls. */
#include <stddef.h>
#include <stdint.h>
#define RET __CPROVER_return_value
/* CBMC bookkeeping global written by its `new` primitive */
extern const void* __CPROVER_new_object;
#define TREEMAX 2
#define P(s, k) ((s)[5 * (k)])
#define N(s, k) ((s)[5 * (k) + 1])
#define R(s, k, i) ((s)[5 * (k) + 2 + (i)])
#define REMOVED(s) ((s)[5 * TREEMAX])
#define OTHER(k) (1 - (k))
#define SAME_SLOT(a, b, k) (P(a, k) == P(b, k) && N(a, k) == N(b, k) && R(a, k, 0) == R(b, k, 0) && R(a, k, 1) == R(b, k, 1) && R(a, k, 2) == R(b, k, 2))
/* first occurrence of h among the n references of slot k (n if none) */
#define FIRST(s, k, h) (N(s, k) > 0 && R(s, k, 0) == (h) ? 0 : N(s, k) > 1 && R(s, k, 1) == (h) ? 1 : N(s, k) > 2 && R(s, k, 2) == (h) ? 2 : N(s, k))
/* element i of (refs ++ [ref]) */
#define APP(s, k, ref, i) ((i) < N(s, k) ? R(s, k, (i) < 3 ? (i) : 2) : (ref))
#define AFTER_REMOVE(s, k, h, i) ((i) < FIRST(s, k, h) ? R(s, k, i) : R(s, k, (i) + 1 < 3 ? (i) + 1 : 2))
/* element i of remove_first(refs ++ [ref], ref) */
#define ROUNDTRIP(s, k, ref, i) ((i) < FIRST(s, k, ref) ? R(s, k, i) : APP(s, k, ref, (i) + 1))
int w_addblock_exec_c(const int32_t* in, int op, int hash, int32_t ref, int accept, int32_t* out)
__CPROVER_requires(__CPROVER_is_fresh(in, (5 * TREEMAX + 1) * 4) && __CPROVER_is_fresh(out, (5 * TREEMAX + 1) * 4))
__CPROVER_requires(op >= 0 && op <= 2 && hash >= 0 && hash < TREEMAX)
__CPROVER_requires((P(in, 0) == 0 || P(in, 0) == 1) && (P(in, 1) == 0 || P(in, 1) == 1))
__CPROVER_requires(N(in, 0) >= 0 && N(in, 1) >= 0 && N(in, 0) <= 3 && N(in, 1) <= 3 && (P(in, 0) == 1 || N(in, 0) == 0) && (P(in, 1) == 1 || N(in, 1) == 0))
/* normal form of the encoding: entries beyond n are 0 */
__CPROVER_requires((N(in, 0) > 0 || R(in, 0, 0) == 0) && (N(in, 0) > 1 || R(in, 0, 1) == 0) && (N(in, 0) > 2 || R(in, 0, 2) == 0))
__CPROVER_requires((N(in, 1) > 0 || R(in, 1, 0) == 0) && (N(in, 1) > 1 || R(in, 1, 1) == 0) && (N(in, 1) > 2 || R(in, 1, 2) == 0))
/* tree invariant (C07: an SP block exists exactly while something references it): a known block carries at least one reference */
__CPROVER_requires((P(in, 0) == 0 || N(in, 0) >= 1) && (P(in, 1) == 0 || N(in, 1) >= 1))
/* room for one more reference in the 3-entry encoding */
__CPROVER_requires(op == 1 || N(in, hash) <= 2)
/* UnExecute's own precondition (it asserts both): the block exists and carries the reference */
__CPROVER_requires(op != 1 || (P(in, hash) == 1 && FIRST(in, hash, ref) < N(in, hash)))
__CPROVER_assigns(__CPROVER_object_whole(out), __CPROVER_new_object)
/* ... and the invariant is preserved by Execute, by UnExecute and by the pair */
__CPROVER_ensures((P(out, 0) == 0 || N(out, 0) >= 1) && (P(out, 1) == 0 || N(out, 1) >= 1))
/* nothing but the addressed block changes */
__CPROVER_ensures(SAME_SLOT(out, in, OTHER(hash)))
/* Execute: succeeds iff the block is known or the tree accepts it; on success the block exists and carries its former references
 * (none if new) followed by ref; on failure nothing changed */
__CPROVER_ensures(op == 1 || RET == ((P(in, hash) == 1 || accept != 0) ? 1 : 0))
__CPROVER_ensures((op == 0 && RET == 0) ==> (SAME_SLOT(out, in, hash) && REMOVED(out) == 0))
__CPROVER_ensures((op == 0 && RET == 1) ==> (P(out, hash) == 1 && N(out, hash) == N(in, hash) + 1 && REMOVED(out) == 0 &&
    R(out, hash, 0) == APP(in, hash, ref, 0) && (N(out, hash) < 2 || R(out, hash, 1) == APP(in, hash, ref, 1)) && (N(out, hash) < 3 || R(out, hash, 2) == APP(in, hash, ref, 2))))
/* UnExecute: removes the first occurrence of ref; the block leaves the tree exactly when that was its last reference */
__CPROVER_ensures(op == 1 ==> (P(out, hash) == (N(in, hash) > 1 ? 1 : 0) && REMOVED(out) == (N(in, hash) > 1 ? 0 : 1) && N(out, hash) == N(in, hash) - 1 &&
    (N(out, hash) < 1 || R(out, hash, 0) == AFTER_REMOVE(in, hash, ref, 0)) && (N(out, hash) < 2 || R(out, hash, 1) == AFTER_REMOVE(in, hash, ref, 1))))
/* Execute then UnExecute: the block is present exactly if it was before, with the reference list remove_first(refs ++ [ref], ref) -
 * identical to the old list whenever ref did not already occur in it (and always the same multiset) */
__CPROVER_ensures((op == 2 && RET == 1) ==> (P(out, hash) == P(in, hash) && N(out, hash) == N(in, hash) && REMOVED(out) == (P(in, hash) == 1 ? 0 : 1) &&
    (N(out, hash) < 1 || R(out, hash, 0) == ROUNDTRIP(in, hash, ref, 0)) && (N(out, hash) < 2 || R(out, hash, 1) == ROUNDTRIP(in, hash, ref, 1))))
__CPROVER_ensures((op == 2 && RET == 1 && FIRST(in, hash, ref) == N(in, hash)) ==> SAME_SLOT(out, in, hash))
__CPROVER_ensures((op == 2 && RET == 0) ==> SAME_SLOT(out, in, hash));

extern void* g_endorse_cmd;
void w_vtb_cmds_c(int nctx, int32_t hc, int32_t hp, int gi, int32_t* out)
__CPROVER_requires(nctx >= 0 && nctx <= 2 && gi >= 0 && gi <= nctx && __CPROVER_is_fresh(out, 6 * 4))
__CPROVER_assigns(__CPROVER_object_whole(out), g_endorse_cmd, __CPROVER_new_object)
/* one AddBlock per context block, one for the block of proof, then the endorsement command */
__CPROVER_ensures(out[0] == nctx + 2)
/* every AddBlock command references its block at the height of the CONTAINING block, in the VBK tree's BTC tree */
__CPROVER_ensures(out[1] == hc && out[3] == 1)
/* in order: the context blocks, then the block of proof */
__CPROVER_ensures(out[2] == (gi < nctx ? 10 + gi : 50))
__CPROVER_ensures(out[4] == 1 && out[5] == 50);

