#include "prelude.hpp"
using namespace altintegration;
#define REACH __CPROVER_assert(0, "REACH: harness end is reachable (expected to fail)")
extern "C" {
void* nondet_ptr();
// in: [0] has a context block, [1] context block's previous hash, [2] context block's hash, [3] block of proof previous hash, [4] block of proof hash
//  (hashes: 0 = all-zero, 1..3 known BTC blocks if [5 + h - 1] says so, else unknown), [5..8) BTC block h known, [8..14) per BTC block: {n refs (0..2), ref0, ref1} -> [8 + 3(h-1) ..]
//  wait: 3 blocks x 3 ints = 9 -> [8..17); [17] containing height, [18] ids already in the VBK block (list length), [19] command group missing, [20] verdict,
//  [21] payload id (0..2), [22] VBK block hash (0..1), [23] query id, [24] query hash
// out: [0] validateBTCContext alone, [1] net change pl[qid][qh], [2] net change of the block's id entry qid, [3] state valid, [4] executions
int w_vtbapply(const int32_t* in, int32_t* out) {
  static BtcIdx bi[NBTC];
  VbkBlockTree t;
  t.btc_.known_[0] = 0;
  for (int h = 1; h <= NBTC; h++) {
    t.btc_.known_[h] = in[5 + h - 1] != 0 ? &bi[h - 1] : (BtcIdx*)0;
    for (int r = 0; r < 2; r++) if (r < in[8 + 3 * (h - 1)]) bi[h - 1].refs.push_back(in[8 + 3 * (h - 1) + 1 + r]);
  }
  for (int i = 0; i < NI; i++) for (int h = 0; h < NH; h++) t.payloadsIndex_.cnt_[i][h] = 0;
  t.commandGroupStore_.missing_ = in[19] != 0; t.commandGroupStore_.cg_.verdict_ = in[20] != 0; t.commandGroupStore_.cg_.executed_ = 0;
  VTB v;
  if (in[0] != 0) { BtcBlockShell c; c.prev_ = in[1]; c.hash_ = in[2]; v.transaction.blockOfProofContext.push_back(c); }
  v.transaction.blockOfProof.prev_ = in[3]; v.transaction.blockOfProof.hash_ = in[4];
  v.containingBlock.height_ = in[17]; v.id_ = in[21];
  VbkIdx idx; idx.hash_ = in[22]; idx.active_ = true; idx.list_.n_ = (size_t)in[18];
  for (int i = 0; i < NI; i++) idx.ids_[i] = 0;
  ValidationState s0;
  out[0] = t.validateBTCContext(v, s0) ? 1 : 0;
  __CPROVER_assert((out[0] == 1) == s0.IsValid(), "validateBTCContext: verdict agrees with the ValidationState");
  ValidationState st;
  bool ok = t.addPayloadToAppliedBlock(idx, v, st);
  out[1] = t.payloadsIndex_.cnt_[in[23]][in[24]];
  out[2] = idx.ids_[in[23]];
  out[3] = st.IsValid() ? 1 : 0;
  out[4] = (int32_t)t.commandGroupStore_.cg_.executed_;
  return ok ? 1 : 0;
}
void h_vtbapply() { w_vtbapply((const int32_t*)nondet_ptr(), (int32_t*)nondet_ptr()); REACH; }
}
