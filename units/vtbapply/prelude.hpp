// C04 / C20 / C02: VbkBlockTree::validateBTCContext ("each VTB's BTC context connects to BTC blocks already referenced at or below that
// VBK height") and VbkBlockTree::addPayloadToAppliedBlock (atomic add-and-apply of one VTB), sliced from
// src/pop/blockchain/pop/vbk_block_tree.cpp over ghost models (BTC block lookup with the real reference list type, payload index,
// the block's id list, command-group store) keyed by small integer ids / hashes.
#include <cstdint>
#include <vector>
#include <veriblock/pop/assert.hpp>
#include <veriblock/pop/fmt.hpp>
#include <veriblock/pop/validation_state.hpp>
#include <veriblock/pop/blockchain/block_status.hpp>
#ifndef MAX_VBKPOPTX_PER_VBK_BLOCK
#define MAX_VBKPOPTX_PER_VBK_BLOCK 1024   /* consts.hpp (checked by the canary slice) */
#endif
#define NBTC 3
#define NI 3
#define NH 2
namespace altintegration {
struct BtcBlockShell { int hash_; int prev_; int getHash() const { return hash_; } int getPreviousBlock() const { return prev_; } };
struct BtcIdx { std::vector<int32_t> refs; const std::vector<int32_t>& getRefs() const { return const_cast<BtcIdx*>(this)->refs; } };
struct BtcTreeShell { BtcIdx* known_[NBTC + 1]; BtcIdx* getBlockIndex(int h) { return ((h) < 1 || (h) > NBTC) ? (BtcIdx*)0 : known_[h]; } };
struct VbkHdrShell { int32_t height_; int32_t getHeight() const { return height_; } };
struct PopTxShell { std::vector<BtcBlockShell> blockOfProofContext; BtcBlockShell blockOfProof; };
struct IdShell { int v; int asVector() const { return v; } };
struct VTB { PopTxShell transaction; VbkHdrShell containingBlock; int id_; IdShell getId() const { IdShell i; i.v = id_; return i; } };
struct IdListShell { size_t n_; size_t size() const { return n_; } };
struct VbkIdx {
  int hash_; bool active_; int ids_[NI]; IdListShell list_;
  int getHash() const { return hash_; }
  bool hasFlags(enum BlockValidityStatus f) const { __CPROVER_assert(f == BLOCK_ACTIVE, "MODEL: only BLOCK_ACTIVE is queried"); return active_; }
  const IdListShell& getPayloadIds_P() const { return const_cast<VbkIdx*>(this)->list_; }
  void insertPayloadId_P(const IdShell& id) { ids_[id.v]++; list_.n_++; }
  void removePayloadId_P(const IdShell& id) { ids_[id.v]--; list_.n_--; }
};
struct PLShell {
  int cnt_[NI][NH];
  void add(int id, int hash) { __CPROVER_assert(id >= 0 && id < NI && hash >= 0 && hash < NH, "MODEL: payload index key range (id, block hash)"); cnt_[id][hash]++; }
  void remove(int id, int hash) { __CPROVER_assert(id >= 0 && id < NI && hash >= 0 && hash < NH, "MODEL: payload index key range (id, block hash)"); cnt_[id][hash]--; }
};
struct CommandGroupShell { bool verdict_; unsigned executed_; bool execute(ValidationState& state) { executed_++; if (!verdict_) return state.Invalid("abstract-command-group-failed"); return true; } };
typedef CommandGroupShell* CGPtr;
struct StoreShell {
  CommandGroupShell cg_; bool missing_;
  CGPtr getCommand(VbkIdx&, const IdShell&, ValidationState& state) { if (missing_) { state.Invalid("abstract-payload-not-found"); return (CommandGroupShell*)0; } return &cg_; }
};
struct VbkBlockTree {
  typedef VTB payloads_t;
  typedef VbkIdx index_t;
  BtcTreeShell btc_; PLShell payloadsIndex_; StoreShell commandGroupStore_;
  BtcTreeShell& btc() { return btc_; }
  bool validateBTCContext(const payloads_t& vtb, ValidationState& state);
  bool addPayloadToAppliedBlock(index_t& index, const payloads_t& payload, ValidationState& state);
};
#include "slices/validateBTCContext.inc"
#include "slices/addPayloadToAppliedBlock.inc"
}  // namespace altintegration
