/* C04: "each VTB's ... BTC context connects to BTC blocks already referenced at or below that VBK height"; C02/C20: applying a VTB to
 * an active block is atomic (the payload's effects are either all there or none). */
#include <stddef.h>
#include <stdint.h>
#define RET __CPROVER_return_value
#define HASCTX (in[0] != 0)
/* the first block of the VTB's BTC chain: the context block if any, else the block of proof */
#define FPREV (HASCTX ? in[1] : in[3])
#define FHASH (HASCTX ? in[2] : in[4])
/* it connects through its previous block, or - for a genesis-like block with an all-zero previous hash - through itself */
#define CONN (FPREV != 0 ? FPREV : FHASH)
#define KNOWNH(h) ((h) >= 1 && (h) <= 3 && in[5 + ((h) >= 1 && (h) <= 3 ? (h) - 1 : 0)] != 0)
#define NREF(h) in[8 + 3 * ((h) >= 1 && (h) <= 3 ? (h) - 1 : 0)]
#define REF(h, r) in[8 + 3 * ((h) >= 1 && (h) <= 3 ? (h) - 1 : 0) + 1 + (r)]
#define CH in[17]
#define REFD(h) ((NREF(h) > 0 && REF(h, 0) <= CH) || (NREF(h) > 1 && REF(h, 1) <= CH))
#define CTX_OK (KNOWNH(CONN) && REFD(CONN))
#define ROOM (in[18] < 1024)
#define MISSING (in[19] != 0)
#define VERDICT (in[20] != 0)
#define APPLIED (ROOM && CTX_OK && !MISSING && VERDICT)
int w_vtbapply_c(const int32_t* in, int32_t* out)
__CPROVER_requires(__CPROVER_is_fresh(in, 25 * 4) && __CPROVER_is_fresh(out, 5 * 4))
__CPROVER_requires(in[1] >= 0 && in[1] <= 4 && in[2] >= 1 && in[2] <= 4 && in[3] >= 0 && in[3] <= 4 && in[4] >= 1 && in[4] <= 4)
__CPROVER_requires(in[8] >= 0 && in[8] <= 2 && in[11] >= 0 && in[11] <= 2 && in[14] >= 0 && in[14] <= 2 && in[18] >= 0 && in[18] <= 2000)
__CPROVER_requires(in[21] >= 0 && in[21] < 3 && in[22] >= 0 && in[22] < 2 && in[23] >= 0 && in[23] < 3 && in[24] >= 0 && in[24] < 2)
__CPROVER_assigns(__CPROVER_object_whole(out))
__CPROVER_ensures((out[0] == 1) == CTX_OK)
__CPROVER_ensures((RET == 1) == APPLIED)
__CPROVER_ensures((out[3] == 1) == (RET == 1))
__CPROVER_ensures(out[1] == ((APPLIED && in[23] == in[21] && in[24] == in[22]) ? 1 : 0))
__CPROVER_ensures(out[2] == ((APPLIED && in[23] == in[21]) ? 1 : 0))
__CPROVER_ensures(out[4] == ((ROOM && CTX_OK && !MISSING) ? 1 : 0));
