#include "prelude.hpp"
using namespace altintegration;
#define REACH __CPROVER_assert(0, "REACH: harness end is reachable (expected to fail)")
// st = {status, dirty, height, addon setNull() calls (ghost)}
static void load(BlockIndex& b, const uint32_t* st) { b.status = st[0]; b.dirty = st[1] != 0; b.height = (int32_t)st[2]; b.setNull_calls = st[3]; }
static void store(const BlockIndex& b, uint32_t* st) { st[0] = b.status; st[1] = b.dirty ? 1 : 0; st[2] = (uint32_t)b.height; st[3] = b.setNull_calls; }
extern "C" {
unsigned nondet_unsigned();
int nondet_int();
void* nondet_ptr();

int w_bi_raise(uint32_t* st, int has_prev, uint32_t prev_status, uint32_t upTo) {
  BlockIndex prev(0), b(0);
  prev.status = prev_status;
  load(b, st);
  b.pprev = has_prev ? &prev : nullptr;
  bool r = b.raiseValidity((BlockStateStatus)upTo);
  store(b, st);
  return r;
}
void h_bi_raise() { w_bi_raise((uint32_t*)nondet_ptr(), nondet_int(), nondet_unsigned(), nondet_unsigned()); REACH; }
int w_bi_lower(uint32_t* st, uint32_t upTo) {
  BlockIndex b(0);
  load(b, st);
  bool r = b.lowerValidity((BlockStateStatus)upTo);
  store(b, st);
  return r;
}
void h_bi_lower() { w_bi_lower((uint32_t*)nondet_ptr(), nondet_unsigned()); REACH; }
void w_bi_setFlag(uint32_t* st, uint32_t flag) { BlockIndex b(0); load(b, st); b.setFlag((BlockValidityStatus)flag); store(b, st); }
void h_bi_setFlag() { w_bi_setFlag((uint32_t*)nondet_ptr(), nondet_unsigned()); REACH; }
void w_bi_unsetFlag(uint32_t* st, uint32_t flag) { BlockIndex b(0); load(b, st); b.unsetFlag((BlockValidityStatus)flag); store(b, st); }
void h_bi_unsetFlag() { w_bi_unsetFlag((uint32_t*)nondet_ptr(), nondet_unsigned()); REACH; }
void w_bi_setStatus(uint32_t* st, uint32_t v) { BlockIndex b(0); load(b, st); b.setStatus(v); store(b, st); }
void h_bi_setStatus() { w_bi_setStatus((uint32_t*)nondet_ptr(), nondet_unsigned()); REACH; }
void w_bi_setHeight(uint32_t* st, int32_t h) { BlockIndex b(0); load(b, st); b.setHeight(h); store(b, st); }
void h_bi_setHeight() { w_bi_setHeight((uint32_t*)nondet_ptr(), nondet_int()); REACH; }
void w_bi_restore(uint32_t* st) { BlockIndex b(0); load(b, st); b.restore(); store(b, st); }
void h_bi_restore() { w_bi_restore((uint32_t*)nondet_ptr()); REACH; }
void w_bi_deleteTemporarily(uint32_t* st) { BlockIndex b(0); load(b, st); b.deleteTemporarily(); store(b, st); }
void h_bi_deleteTemporarily() { w_bi_deleteTemporarily((uint32_t*)nondet_ptr()); REACH; }
void w_bi_unsetDirty(uint32_t* st) { BlockIndex b(0); load(b, st); b.unsetDirty(); store(b, st); }
void h_bi_unsetDirty() { w_bi_unsetDirty((uint32_t*)nondet_ptr()); REACH; }

// observers: bit0 isFailed, bit1 isValid(upTo), bit2 isValidUpTo(upTo), bit3 isDeleted, bit4 canBeATip, bit5 isConnected,
// bit6 hasFlags(flag), bit7 isDirty, bit8 isValid() [default argument], bits 16.. getValidityLevel
uint32_t w_bi_query(uint32_t status, int dirty, uint32_t upTo, uint32_t flag) {
  BlockIndex b(0);
  b.status = status;
  b.dirty = dirty != 0;
  uint32_t r = 0;
  if (b.isFailed()) r |= 1;
  if (b.isValid((BlockStateStatus)upTo)) r |= 2;
  if (b.isValidUpTo((BlockStateStatus)upTo)) r |= 4;
  if (b.isDeleted()) r |= 8;
  if (b.canBeATip()) r |= 16;
  if (b.isConnected()) r |= 32;
  if (b.hasFlags((BlockValidityStatus)flag)) r |= 64;
  if (b.isDirty()) r |= 128;
  if (b.isValid()) r |= 256;
  r |= b.getValidityLevel() << 16;
  __CPROVER_assert(b.getStatus() == status && b.status == status, "observers do not modify the status");
  return r;
}
void h_bi_query() { w_bi_query(nondet_unsigned(), nondet_int(), nondet_unsigned(), nondet_unsigned()); REACH; }

// constructor from a parent: out = {status, dirty, height, 0}; returns the parent's pnext count
uint32_t w_bi_ctor(uint32_t prev_status, int32_t prev_height, uint32_t* out) {
  BlockIndex prev(prev_height);
  prev.status = prev_status;
  BlockIndex b(&prev);
  store(b, out);
  __CPROVER_assert(b.pprev == &prev && b.isTip() && !b.finalized, "new block: linked to its parent, no children, not finalized");
  return (uint32_t)prev.pnext.n;
}
void h_bi_ctor() { w_bi_ctor(nondet_unsigned(), nondet_int(), (uint32_t*)nondet_ptr()); REACH; }
void w_bi_ctor_root(int32_t h, uint32_t* out) { BlockIndex b(h); store(b, out); __CPROVER_assert(b.isRoot() && b.isTip(), "root block"); }
void h_bi_ctor_root() { w_bi_ctor_root(nondet_int(), (uint32_t*)nondet_ptr()); REACH; }

// C08: node-local halves of doInvalidate / doReValidate: setFlag(reason) then unsetFlag(reason); mid = status in between
void w_bi_inval_reval(uint32_t* st, uint32_t reason, uint32_t* mid) {
  BlockIndex b(0);
  load(b, st);
  b.setFlag((BlockValidityStatus)reason);
  *mid = b.status;
  __CPROVER_assert(b.isFailed() && !b.isValid() && !b.canBeATip(), "an invalidated block is failed, not valid and cannot be a tip");
  b.unsetFlag((BlockValidityStatus)reason);
  store(b, st);
}
void h_bi_inval_reval() { w_bi_inval_reval((uint32_t*)nondet_ptr(), nondet_unsigned(), (uint32_t*)nondet_ptr()); REACH; }
int w_isValidInvalidationReason(uint32_t r) { return isValidInvalidationReason((BlockValidityStatus)r); }
void h_isValidInvalidationReason() { w_isValidInvalidationReason(nondet_unsigned()); REACH; }

// chain c[0] (tip, height h0) <- c[1] <- ... <- c[n-1] (root); returns the index (0..n-1) of getAncestor(target), or -1 for null;
// *behind = the same for getAncestorBlocksBehind(steps)
int w_bi_getAncestor(uint32_t n, int32_t h0, int32_t target, int32_t steps, int* behind) {
  BlockIndex c0(0), c1(0), c2(0), c3(0), c4(0), c5(0);
  BlockIndex* c[6] = {&c0, &c1, &c2, &c3, &c4, &c5};
  for (uint32_t i = 0; i < 6; i++) { c[i]->height = h0 - (int32_t)i; c[i]->pprev = (i + 1 < n) ? c[i + 1] : 0; }
  const BlockIndex* r = c0.getAncestor(target);
  const BlockIndex* b = c0.getAncestorBlocksBehind(steps);
  *behind = -1;
  int ri = -1;
  for (int i = 0; i < 6; i++) { if (r == c[i]) ri = i; if (b == c[i]) *behind = i; }
  __CPROVER_assert(r == 0 || ri >= 0, "getAncestor returns a block of the chain or null");
  return ri;
}
void h_bi_getAncestor() { w_bi_getAncestor(nondet_unsigned(), nondet_int(), nondet_int(), nondet_int(), (int*)nondet_ptr()); REACH; }
}
