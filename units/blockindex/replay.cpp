// native replay for unit blockindex.
// (1) function level: the REAL BlockIndex<AltBlock> is put into the counterexample's state and the mutator is called; the
//     violated postcondition ("persisted status changed ==> dirty", exact new status, ...) is re-evaluated.
// (2) for the dirty rule (C10) the consequence is shown on a history through the public API, with the test fixture's in-memory
//     storage: headers A1 <- A2; acceptBlock(A2); save; acceptBlock(A1) (connects A1, then A2 through raiseValidity); save;
//     load into a fresh tree; compare A2's status with the in-memory one at the time of the last completed save.
#include <pop/util/pop_test_fixture.hpp>
#include <cstdio>
#include <unistd.h>
#include "replay_inputs.hpp"
using namespace altintegration;
struct F : public PopTestFixture {};
static int history() {
  F f;
  AltBlock boot = f.altparam.getBootstrapBlock();
  AltBlock A1 = f.generateNextBlock(boot);
  AltBlock A2 = f.generateNextBlock(A1);
  ValidationState st;
  if (!(f.alttree.acceptBlockHeader(A1, st) && f.alttree.acceptBlockHeader(A2, st))) return 0;
  f.alttree.acceptBlock(A2.getHash(), PopData{});
  f.save(f.alttree);
  f.alttree.acceptBlock(A1.getHash(), PopData{});
  auto* i2 = f.alttree.getBlockIndex(A2.getHash());
  uint32_t mem = i2->getStatus();
  f.save(f.alttree);
  AltBlockTree re{f.altparam, f.vbkparam, f.btcparam, f.payloadsProvider, f.blockProvider};
  re.btc().bootstrapWithGenesis(GetRegTestBtcBlock());
  re.vbk().bootstrapWithGenesis(GetRegTestVbkBlock());
  re.bootstrap();
  bool l = loadTrees(re, false, st);
  auto* r2 = re.getBlockIndex(A2.getHash());
  printf("history: in-memory A2 status=%u connected=%d; reloaded: load=%d A2 %s status=%u connected=%d\n", mem, (int)i2->isConnected(), (int)l,
         r2 ? "found" : "missing", r2 ? r2->getStatus() : 0, r2 ? (int)r2->isConnected() : 0);
  return (!l || r2 == nullptr || r2->getStatus() != mem) ? 1 : 0;
}
int main(int argc, char** argv) {
  ReplayInputs in;
  if (argc < 3 || !in.load(argv[1])) { printf("NOT-REPRODUCED: cannot read inputs\n"); return 2; }
  std::string h = argv[2];
  auto stv = in.a.count("st") ? in.a["st"] : std::vector<long long>{};
  stv.resize(4);
  uint32_t status = (uint32_t)stv[0], upTo = (uint32_t)in.S("upTo"), flag = (uint32_t)in.S("flag");
  bool dirty = stv[1] != 0;
  // never destroyed: ~BlockIndex asserts a deleted, disconnected block
  auto* prev = new BlockIndex<AltBlock>(0);
  auto* b = new BlockIndex<AltBlock>(0);
  prev->setStatus((uint32_t)in.S("prev_status"));
  if (in.S("has_prev")) b->pprev = prev;
  b->setStatus(status);
  if (dirty) b->setDirty(); else b->unsetDirty();
  bool bad = false;
  if (h == "bi_raise") { b->raiseValidity((BlockStateStatus)upTo); }
  else if (h == "bi_lower") { b->lowerValidity((BlockStateStatus)upTo); }
  else if (h == "bi_setFlag") { b->setFlag((BlockValidityStatus)flag); bad = b->getStatus() != (status | flag); }
  else if (h == "bi_unsetFlag") { b->unsetFlag((BlockValidityStatus)flag); bad = b->getStatus() != (status & ~flag); }
  else if (h == "bi_setStatus") { b->setStatus((uint32_t)in.S("v")); bad = b->getStatus() != (uint32_t)in.S("v"); }
  else if (h == "bi_deleteTemporarily") { b->deleteTemporarily(); bad = b->getStatus() != ((status & 0xE0u) | 0x400u); }
  else if (h == "bi_restore") { b->restore(); bad = b->getStatus() != (status & ~0x400u); }
  else { printf("NOT-REPRODUCED: no native evaluator for harness %s\n", h.c_str()); _exit(0); }
  printf("%s: status %u -> %u, dirty %d -> %d\n", h.c_str(), status, b->getStatus(), (int)dirty, (int)b->isDirty());
  bool dirty_rule_broken = (b->getStatus() != status && !b->isDirty()) || (dirty && !b->isDirty());
  int hist = 0;
  if (dirty_rule_broken) hist = history();
  if (dirty_rule_broken) printf("REPRODUCED: the real %s changes the persisted status without marking the block dirty%s\n", h.c_str(),
                                hist ? "; an incremental save then reloads a different state (history above)" : "");
  else if (bad) printf("REPRODUCED: the real %s yields a status different from its contract\n", h.c_str());
  else printf("NOT-REPRODUCED\n");
  fflush(stdout);
  _exit((dirty_rule_broken || bad) ? 1 : 0);
}
