// C07/C08/C10/C20: the status algebra of BlockIndex. The in-class member definitions are sliced one by one from
// include/veriblock/pop/blockchain/block_index.hpp and re-emitted inside this shell, which declares only the data members they
// touch (pprev, pnext as a counter, status, height, dirty, finalized) and an addon shell. block_status.hpp is the real header.
#include <cstdint>
#include <veriblock/pop/assert.hpp>
#include <veriblock/pop/blockchain/block_status.hpp>
#ifndef TIPLEVEL
#define TIPLEVEL 1
#endif
namespace altintegration {
struct AddonShell {
  // alt_block_addon.hpp: BLOCK_CONNECTED; btc/vbk_block_addon.hpp: BLOCK_VALID_TREE  (harness parameter TIPLEVEL)
  static BlockStateStatus validTipLevel_f() { return (BlockStateStatus)TIPLEVEL; }
  unsigned setNull_calls;  // ghost: addon_t::setNull() marks the addon's persisted fields as reset
  void setNull() { setNull_calls++; }
};
struct PNextShell {  // std::set<BlockIndex*> pnext: only insert/empty/clear are reached by the slices
  size_t n;
  void insert(void*) { n++; }
  bool empty() const { return n == 0; }
  void clear() { n = 0; }
};
// default member initialisers of the real class (sliced as #defines)
#include "slices/init_height.inc"
#include "slices/init_status.inc"
#include "slices/init_dirty.inc"
struct BlockIndex : public AddonShell {
  typedef int32_t height_t;
  typedef AddonShell addon_t;
  BlockIndex* pprev;
  PNextShell pnext;
  bool finalized;
  height_t height;
  uint32_t status;
  bool dirty;
#define VERIF_DEFAULT_MEMBER_INIT pnext.n = 0; finalized = false; setNull_calls = 0; height = VERIF_INIT_HEIGHT; status = VERIF_INIT_STATUS; dirty = VERIF_INIT_DIRTY
#include "slices/ctor_prev.inc"
#include "slices/ctor_root.inc"
#include "slices/isTip.inc"
#include "slices/isDeleted.inc"
#include "slices/isRoot.inc"
#include "slices/restore.inc"
#include "slices/deleteTemporarily.inc"
#include "slices/isConnected.inc"
#include "slices/getStatus.inc"
#include "slices/setStatus.inc"
#include "slices/getValidityLevel.inc"
#include "slices/isFailed.inc"
#include "slices/isValid.inc"
#include "slices/isValidUpTo.inc"
#include "slices/raiseValidity.inc"
#include "slices/lowerValidity.inc"
#include "slices/setDirty.inc"
#include "slices/unsetDirty.inc"
#include "slices/isDirty.inc"
#include "slices/setFlag.inc"
#include "slices/unsetFlag.inc"
#include "slices/hasFlags.inc"
#include "slices/getHeight.inc"
#include "slices/setHeight.inc"
#include "slices/canBeATip.inc"
#include "slices/getPrev.inc"
#include "slices/getAncestor.inc"
#include "slices/getAncestorBlocksBehind.inc"
};
#include "slices/isValidInvalidationReason.inc"
}  // namespace altintegration
