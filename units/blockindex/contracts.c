/* C07 / C08 / C10 / C20: contracts for the status members of BlockIndex (block_index.hpp), for all 2^32 status words.
 * status word: bits 0..2 validity level (0..4 used), 0x10 BOOTSTRAP, 0x20 FAILED_BLOCK, 0x40 FAILED_POP, 0x80 FAILED_CHILD,
 * 0x100 HAS_PAYLOADS, 0x200 ACTIVE, 0x400 DELETED.
 * ok(s): representation invariant of a status word (C07).   st = {status, dirty, height, addon.setNull() calls}
 * C10 clause on every mutator: the persisted view (status, height, addon fields) changed  ==>  dirty; dirty is never cleared
 * except by unsetDirty. */
#include <stddef.h>
#include <stdint.h>
#define RET __CPROVER_return_value
#define LEVEL(s) ((s)&7u)
#define FAILMASK 0xE0u
#define F_BLOCK 0x20u
#define F_POP 0x40u
#define F_CHILD 0x80u
#define DELETED 0x400u
#define OKS(s) (LEVEL(s) <= 4 && !(LEVEL(s) == 4 && ((s)&F_POP) != 0))
#define ST(st) __CPROVER_is_fresh(st, 4 * sizeof(uint32_t))
#define O(i) __CPROVER_old(st[i])
#define DIRTY_RULE __CPROVER_ensures(((st[0] != O(0) || st[2] != O(2) || st[3] != O(3)) ==> st[1] == 1) && (O(1) != 0 ==> st[1] == 1))
#define ISLEVEL(u) ((u) >= 1 && (u) <= 4)

int w_bi_raise_c(uint32_t* st, int has_prev, uint32_t prev_status, uint32_t upTo)
__CPROVER_requires(ST(st) && OKS(st[0]) && ISLEVEL(upTo))
/* the caller's obligation stated by the function's own assertion: the parent is at least at that level */
__CPROVER_requires(has_prev == 0 || (OKS(prev_status) && LEVEL(prev_status) >= upTo))
__CPROVER_assigns(__CPROVER_object_whole(st))
__CPROVER_ensures((RET != 0) == ((O(0) & F_POP) == 0 && LEVEL(O(0)) < upTo))
__CPROVER_ensures(RET != 0 ==> st[0] == ((O(0) & ~7u) | upTo))
__CPROVER_ensures(RET == 0 ==> st[0] == O(0))
__CPROVER_ensures(OKS(st[0]) && st[2] == O(2) && st[3] == O(3))
DIRTY_RULE;

int w_bi_lower_c(uint32_t* st, uint32_t upTo)
__CPROVER_requires(ST(st) && OKS(st[0]) && (ISLEVEL(upTo) || upTo == 0))
__CPROVER_assigns(__CPROVER_object_whole(st))
__CPROVER_ensures((RET != 0) == ((O(0) & F_POP) == 0 && LEVEL(O(0)) > upTo))
__CPROVER_ensures(RET != 0 ==> st[0] == ((O(0) & ~7u) | upTo))
__CPROVER_ensures(RET == 0 ==> st[0] == O(0))
__CPROVER_ensures(OKS(st[0]) && st[2] == O(2) && st[3] == O(3))
DIRTY_RULE;

#define ISFLAGS(f) (((f) & ~0x7F0u) == 0)
void w_bi_setFlag_c(uint32_t* st, uint32_t flag)
__CPROVER_requires(ST(st) && OKS(st[0]) && ISFLAGS(flag))
__CPROVER_assigns(__CPROVER_object_whole(st))
__CPROVER_ensures(st[0] == (O(0) | flag) && st[2] == O(2) && st[3] == O(3))
/* doInvalidate's guard: FAILED_POP is never put on a fully valid block */
__CPROVER_ensures(!((flag & F_POP) != 0 && LEVEL(O(0)) == 4) ==> OKS(st[0]))
DIRTY_RULE;
void w_bi_unsetFlag_c(uint32_t* st, uint32_t flag)
__CPROVER_requires(ST(st) && OKS(st[0]) && ISFLAGS(flag))
__CPROVER_assigns(__CPROVER_object_whole(st))
__CPROVER_ensures(st[0] == (O(0) & ~flag) && st[2] == O(2) && st[3] == O(3) && OKS(st[0]))
DIRTY_RULE;
void w_bi_setStatus_c(uint32_t* st, uint32_t v)
__CPROVER_requires(ST(st))
__CPROVER_assigns(__CPROVER_object_whole(st))
__CPROVER_ensures(st[0] == v && st[2] == O(2) && st[3] == O(3))
DIRTY_RULE;
void w_bi_setHeight_c(uint32_t* st, int32_t h)
__CPROVER_requires(ST(st))
__CPROVER_assigns(__CPROVER_object_whole(st))
__CPROVER_ensures(st[0] == O(0) && st[2] == (uint32_t)h && st[3] == O(3))
DIRTY_RULE;
void w_bi_restore_c(uint32_t* st)
__CPROVER_requires(ST(st) && OKS(st[0]) && (st[0] & DELETED) != 0)
__CPROVER_assigns(__CPROVER_object_whole(st))
__CPROVER_ensures(st[0] == (O(0) & ~DELETED) && st[1] == 1 && st[2] == O(2) && st[3] == O(3))
DIRTY_RULE;
/* keeps exactly the failure flags, clears level and all other flags, sets DELETED, resets the addon */
void w_bi_deleteTemporarily_c(uint32_t* st)
__CPROVER_requires(ST(st) && OKS(st[0]) && (st[0] & DELETED) == 0 && st[3] < 1000)
__CPROVER_assigns(__CPROVER_object_whole(st))
__CPROVER_ensures(st[0] == ((O(0) & FAILMASK) | DELETED) && st[1] == 1 && st[2] == O(2) && st[3] == O(3) + 1 && OKS(st[0]))
DIRTY_RULE;
void w_bi_unsetDirty_c(uint32_t* st)
__CPROVER_requires(ST(st))
__CPROVER_assigns(__CPROVER_object_whole(st))
__CPROVER_ensures(st[0] == O(0) && st[1] == 0 && st[2] == O(2) && st[3] == O(3));

#ifndef TIPLEVEL
#define TIPLEVEL 1
#endif
#define Q_FAILED(s) (((s)&FAILMASK) != 0)
uint32_t w_bi_query_c(uint32_t status, int dirty, uint32_t upTo, uint32_t flag)
__CPROVER_requires(OKS(status) && (ISLEVEL(upTo) || upTo == 0))
__CPROVER_assigns()
__CPROVER_ensures(((RET & 1) != 0) == Q_FAILED(status))
__CPROVER_ensures(((RET & 2) != 0) == (!Q_FAILED(status) && LEVEL(status) >= upTo))
__CPROVER_ensures(((RET & 4) != 0) == (LEVEL(status) >= upTo))
__CPROVER_ensures(((RET & 8) != 0) == ((status & DELETED) != 0))
__CPROVER_ensures(((RET & 16) != 0) == ((status & DELETED) == 0 && !Q_FAILED(status) && LEVEL(status) >= TIPLEVEL))
__CPROVER_ensures(((RET & 32) != 0) == (LEVEL(status) >= 2))
__CPROVER_ensures(((RET & 64) != 0) == ((status & flag) != 0))
__CPROVER_ensures(((RET & 128) != 0) == (dirty != 0))
__CPROVER_ensures(((RET & 256) != 0) == (!Q_FAILED(status) && LEVEL(status) >= 1))
__CPROVER_ensures((RET >> 16) == LEVEL(status));

/* a new block inherits FAILED_CHILD iff its parent is failed, starts deleted at level 0, one above its parent */
uint32_t w_bi_ctor_c(uint32_t prev_status, int32_t prev_height, uint32_t* out)
__CPROVER_requires(ST(out) && prev_height < 2147483647)
__CPROVER_assigns(__CPROVER_object_whole(out))
__CPROVER_ensures(out[0] == (DELETED | (Q_FAILED(prev_status) ? F_CHILD : 0u)))
__CPROVER_ensures(out[2] == (uint32_t)(prev_height + 1) && out[3] == 0)
__CPROVER_ensures(RET == 1);
void w_bi_ctor_root_c(int32_t h, uint32_t* out)
__CPROVER_requires(ST(out))
__CPROVER_assigns(__CPROVER_object_whole(out))
__CPROVER_ensures(out[0] == DELETED && out[1] == 0 && out[2] == (uint32_t)h && out[3] == 0);

/* C08: invalidate-then-revalidate with the same reason restores the status word when the reason was not set before,
 * and never touches any other failure flag (so "invalid for another reason stays invalid") */
void w_bi_inval_reval_c(uint32_t* st, uint32_t reason, uint32_t* mid)
__CPROVER_requires(ST(st) && __CPROVER_is_fresh(mid, sizeof(uint32_t)) && OKS(st[0]))
__CPROVER_requires(reason == F_BLOCK || reason == F_POP || reason == F_CHILD)
/* doInvalidate's own assertion */
__CPROVER_requires(!(LEVEL(st[0]) == 4 && reason == F_POP))
__CPROVER_assigns(__CPROVER_object_whole(st), *mid)
__CPROVER_ensures(*mid == (O(0) | reason) && OKS(*mid))
__CPROVER_ensures((O(0) & reason) == 0 ==> st[0] == O(0))
__CPROVER_ensures((st[0] & FAILMASK & ~reason) == (O(0) & FAILMASK & ~reason))
__CPROVER_ensures((st[0] & ~FAILMASK) == (O(0) & ~FAILMASK))
DIRTY_RULE;
int w_isValidInvalidationReason_c(uint32_t r)
__CPROVER_assigns()
__CPROVER_ensures((RET != 0) == (r == F_BLOCK || r == F_POP));

/* C07 "heights follow parents" / C04 (AddEndorsement relies on it): getAncestor(h) on a chain whose heights follow the parent links
 * returns THE block of the chain at height h (index h0 - h from the tip) when 0 <= h <= h0 and the chain reaches that far, else null. */
int w_bi_getAncestor_c(uint32_t n, int32_t h0, int32_t target, int32_t steps, int* behind)
__CPROVER_requires(__CPROVER_is_fresh(behind, sizeof(int)) && n >= 1 && n <= 6 && h0 >= 0 && h0 <= 1000000 && (uint32_t)h0 + 1 >= n)
/* getAncestor asserts a non-negative height */
__CPROVER_requires(target >= 0)
__CPROVER_assigns(*behind)
__CPROVER_ensures(RET == ((target <= h0 && (uint32_t)(h0 - target) < n) ? h0 - target : -1))
__CPROVER_ensures(*behind == ((steps >= 0 && steps <= h0 && (uint32_t)steps < n) ? steps : -1));
