#include "prelude.hpp"
using namespace altintegration;
#define REACH __CPROVER_assert(0, "REACH: harness end is reachable (expected to fail)")
extern "C" {
void* nondet_ptr();
// in: [0] height, [1] score, [2] difficulty, [3] ki, [4] payout rounds, [5] keystone round, [6] flat round, [7] use flat round,
//     [8] start of slope, [9] slope normal, [10] slope keystone, [11] max threshold normal, [12] max threshold keystone, [13..17) round ratios,
//     [17] relative VBK height of one endorsement, [18] score table length
// out: [0] block reward, [1] that endorsement's miner reward
void w_rcalc(const int32_t* in, int32_t* out) {
  DefaultPopRewardsCalculator c;
  AltChainParams& p = c.tree_.params;
  p.ki = KI;   /* harness parameter; the contract requires in[3] == KI */ p.pp.rounds = (uint32_t)in[4]; p.pp.ksround = (uint32_t)in[5]; p.pp.flatround = (uint32_t)in[6]; p.pp.useflat = in[7] != 0;
  p.pp.start_.v = in[8]; p.pp.slopeN_.v = in[9]; p.pp.slopeK_.v = in[10]; p.pp.maxN_.v = in[11]; p.pp.maxK_.v = in[12];
  for (int i = 0; i < RMAX; i++) p.pp.ratios_.r_[i] = in[13 + i];
  p.pp.tablen = (size_t)in[18];
  PopRewardsBigDecimal s, d; s.v = in[1]; d.v = in[2];
  PopRewardsBigDecimal r = c.calculateBlockReward((uint32_t)in[0], s, d);
  out[0] = r.v;
  out[1] = c.calculateMinerReward((uint32_t)in[17], s, r).v;
}
void h_rcalc() { w_rcalc((const int32_t*)nondet_ptr(), (int32_t*)nondet_ptr()); REACH; }
}
