#include "prelude.hpp"
using namespace altintegration;
#ifndef AVG
#define AVG 3
#endif
#define REACH __CPROVER_assert(0, "REACH: harness end is reachable (expected to fail)")
extern "C" {
void* nondet_ptr();
int nondet_int();
// in: [0] height, [1] score, [2] difficulty, [3] ki, [4] payout rounds, [5] keystone round, [6] flat round, [7] use flat round,
//     [8] start of slope, [9] slope normal, [10] slope keystone, [11] max threshold normal, [12] max threshold keystone, [13..17) round ratios,
//     [17] relative VBK height of one endorsement, [18] score table length
// out: [0] block reward, [1] that endorsement's miner reward
void w_rcalc(const int32_t* in, int32_t* out) {
  DefaultPopRewardsCalculator c;
  AltChainParams& p = c.tree_.params;
  p.ki = KI;   /* harness parameter; the contract requires in[3] == KI */ p.pp.rounds = (uint32_t)in[4]; p.pp.ksround = (uint32_t)in[5]; p.pp.flatround = (uint32_t)in[6]; p.pp.useflat = in[7] != 0;
  p.pp.start_.v = in[8]; p.pp.slopeN_.v = in[9]; p.pp.slopeK_.v = in[10]; p.pp.maxN_.v = in[11]; p.pp.maxK_.v = in[12];
  for (int i = 0; i < RMAX; i++) p.pp.ratios_.r_[i] = in[13 + i];
  p.pp.tablen = (size_t)in[18];
  PopRewardsBigDecimal s, d; s.v = in[1]; d.v = in[2];
  PopRewardsBigDecimal r = c.calculateBlockReward((uint32_t)in[0], s, d);
  out[0] = r.v;
  out[1] = c.calculateMinerReward((uint32_t)in[17], s, r).v;
}
// sc: per ALT block a (0 = the endorsed block itself for op 0; blocks 0..2 = tip->pprev, its parent, ... for op 1), endorsement j:
//   [4*(2a+j) ..] = {exists, block of proof id (0..2, else unknown), -, -}; vb: per VBK block {height, on best chain}; avg = averaging interval
// op 0: scoreFromEndorsements(block 0); op 1: calculateDifficulty(tip) where tip->pprev = block 0 -> block 1 -> block 2 -> null (nchain of them exist)
int32_t w_rscore(const int32_t* sc, const int32_t* vb, int op, int avg, int nchain) {
  static VbkIndex v[VB]; static EndorsementShell es[ABLK][EMAX]; static AltIndexShell blk[ABLK + 1];
  DefaultPopRewardsCalculator c;
  c.tree_.params.ki = KI; c.tree_.params.pp.tablen = 4; c.tree_.params.pp.avg_ = AVG;   /* harness parameter; the contract requires avg == AVG */
  for (int i = 0; i < VB; i++) { v[i].height = vb[2 * i]; v[i].onBest = vb[2 * i + 1] != 0; c.tree_.vbk_.all[i] = &v[i]; }
  for (int a = 0; a < ABLK; a++) {
    blk[a].ne_ = 0; blk[a].pprev = (a + 1 < nchain) ? &blk[a + 1] : (AltIndexShell*)0;
    for (int j = 0; j < EMAX; j++) if (sc[4 * (2 * a + j)] != 0) { es[a][j].blockOfProof = sc[4 * (2 * a + j) + 1]; blk[a].e_[blk[a].ne_++] = &es[a][j]; }
  }
  blk[ABLK].ne_ = 0; blk[ABLK].pprev = nchain > 0 ? &blk[0] : (AltIndexShell*)0;   // the tip
  return op == 0 ? c.scoreFromEndorsements(blk[0]).v : c.calculateDifficulty(blk[ABLK]).v;
}
void h_rscore() { w_rscore((const int32_t*)nondet_ptr(), (const int32_t*)nondet_ptr(), nondet_int(), nondet_int(), nondet_int()); REACH; }
void h_rcalc() { w_rcalc((const int32_t*)nondet_ptr(), (int32_t*)nondet_ptr()); REACH; }
}
