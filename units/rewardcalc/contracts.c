/* C14: "amounts given by the reward specification (score from relative VBK publication height, difficulty averaged over preceding
 * blocks, round ratio, slope and threshold caps)" - the regime structure, over exact integers:
 *   round   = keystone round at keystone heights, otherwise (height mod ki) mod (rounds-1)            [unit rewards]
 *   flat    : in the flat-score round right after a keystone, score and difficulty count as 1
 *   score 0 pays nothing; difficulty below 1 counts as 1
 *   x       = score / difficulty; past the start of the slope x is capped at the round's maximum threshold and the payout per point
 *             drops linearly: multiplier 1 - min(1, slope(round) * (x - start))
 *   reward  = multiplier * x * roundRatio(round);   miner reward = reward * table[relative height] / score (0 for score 0) */
#include <stddef.h>
#include <stdint.h>
#define H ((uint32_t)in[0])
#define SCORE ((int32_t)in[1])
#define DIFF ((int32_t)in[2])
/* KI: harness parameter */
#define ROUNDS ((uint32_t)in[4])
#define KSR ((uint32_t)in[5])
#define FLATR ((uint32_t)in[6])
#define USEFLAT (in[7] != 0)
#define START ((int32_t)in[8])
#define ISKS (H % KI == 0)
#define ROUND (ISKS ? KSR : ROUNDS <= 1 ? 0u : (H % KI) % (ROUNDS - 1))
#define FIRST_AFTER_KS (ROUNDS == 0 ? 1 : ((H % KI) / ROUNDS == 0))
#define FLAT (USEFLAT && ROUND == FLATR && FIRST_AFTER_KS)
#define S1 (FLAT ? 1 : SCORE)
#define D1 (FLAT ? 1 : (DIFF < 1 ? 1 : DIFF))
#define X0 (S1 / D1)
#define SLOPE ((int32_t)(ROUND == KSR ? in[10] : in[9]))
#define MAXT ((int32_t)(ROUND == KSR ? in[12] : in[11]))
#define PAST (X0 > START)
#define X (PAST && X0 > MAXT ? MAXT : X0)
#define DEC (SLOPE * (X - START))
#define MULT (PAST ? 1 - (DEC > 1 ? 1 : DEC) : 1)
#define RATIO ((int32_t)in[13 + (ROUND < 4 ? ROUND : 0)])
#define REWARD (S1 == 0 ? 0 : MULT * X * RATIO)
#define REL in[17]
#define WEIGHT ((REL < 0 || REL >= in[18]) ? 0 : 10 + REL)
void w_rcalc_c(const int32_t* in, int32_t* out)
__CPROVER_requires(__CPROVER_is_fresh(in, 19 * 4) && __CPROVER_is_fresh(out, 2 * 4))
__CPROVER_requires(in[0] >= 0 && in[0] < (1 << 20) && in[1] >= 0 && in[1] < 16 && in[2] >= 0 && in[2] < 16 && in[3] == KI)
__CPROVER_requires(in[4] >= 1 && in[4] <= 4 && in[5] >= 0 && in[5] < in[4] && in[6] >= 0 && in[6] < in[4])
__CPROVER_requires(in[8] >= 0 && in[8] < 16 && in[9] >= 0 && in[9] < 16 && in[10] >= 0 && in[10] < 16 && in[11] >= 0 && in[11] < 16 && in[12] >= 0 && in[12] < 16)
__CPROVER_requires(in[13] >= 0 && in[13] < 16 && in[14] >= 0 && in[14] < 16 && in[15] >= 0 && in[15] < 16 && in[16] >= 0 && in[16] < 16)
__CPROVER_requires(in[17] >= 0 && in[17] < 64 && in[18] >= 0 && in[18] <= 32)
/* calculateSlopeRatio asserts score >= startOfSlope: here it is only called past the start of the slope, after the cap - the
 * specification needs the cap to lie at or above the start of the slope */
__CPROVER_requires(in[11] >= in[8] && in[12] >= in[8])
__CPROVER_assigns(__CPROVER_object_whole(out))
__CPROVER_ensures(out[0] == REWARD)
__CPROVER_ensures(out[1] == (SCORE == 0 ? 0 : REWARD * WEIGHT / SCORE));
