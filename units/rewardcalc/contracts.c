/* C14: "amounts given by the reward specification (score from relative VBK publication height, difficulty averaged over preceding
 * blocks, round ratio, slope and threshold caps)" - the regime structure, over exact integers:
 *   round   = keystone round at keystone heights, otherwise (height mod ki) mod (rounds-1)            [unit rewards]
 *   flat    : in the flat-score round right after a keystone, score and difficulty count as 1
 *   score 0 pays nothing; difficulty below 1 counts as 1
 *   x       = score / difficulty; past the start of the slope x is capped at the round's maximum threshold and the payout per point
 *             drops linearly: multiplier 1 - min(1, slope(round) * (x - start))
 *   reward  = multiplier * x * roundRatio(round);   miner reward = reward * table[relative height] / score (0 for score 0) */
#include <stddef.h>
#include <stdint.h>
#define H ((uint32_t)in[0])
#define SCORE ((int32_t)in[1])
#define DIFF ((int32_t)in[2])
/* KI: harness parameter */
#define ROUNDS ((uint32_t)in[4])
#define KSR ((uint32_t)in[5])
#define FLATR ((uint32_t)in[6])
#define USEFLAT (in[7] != 0)
#define START ((int32_t)in[8])
#define ISKS (H % KI == 0)
#define ROUND (ISKS ? KSR : ROUNDS <= 1 ? 0u : (H % KI) % (ROUNDS - 1))
#define FIRST_AFTER_KS (ROUNDS == 0 ? 1 : ((H % KI) / ROUNDS == 0))
#define FLAT (USEFLAT && ROUND == FLATR && FIRST_AFTER_KS)
#define S1 (FLAT ? 1 : SCORE)
#define D1 (FLAT ? 1 : (DIFF < 1 ? 1 : DIFF))
#define X0 (S1 / D1)
#define SLOPE ((int32_t)(ROUND == KSR ? in[10] : in[9]))
#define MAXT ((int32_t)(ROUND == KSR ? in[12] : in[11]))
#define PAST (X0 > START)
#define X (PAST && X0 > MAXT ? MAXT : X0)
#define DEC (SLOPE * (X - START))
#define MULT (PAST ? 1 - (DEC > 1 ? 1 : DEC) : 1)
#define RATIO ((int32_t)in[13 + (ROUND < 4 ? ROUND : 0)])
#define REWARD (S1 == 0 ? 0 : MULT * X * RATIO)
#define REL in[17]
#define WEIGHT ((REL < 0 || REL >= in[18]) ? 0 : 10 + REL)
void w_rcalc_c(const int32_t* in, int32_t* out)
__CPROVER_requires(__CPROVER_is_fresh(in, 19 * 4) && __CPROVER_is_fresh(out, 2 * 4))
__CPROVER_requires(in[0] >= 0 && in[0] < (1 << 20) && in[1] >= 0 && in[1] < 16 && in[2] >= 0 && in[2] < 16 && in[3] == KI)
__CPROVER_requires(in[4] >= 1 && in[4] <= 4 && in[5] >= 0 && in[5] < in[4] && in[6] >= 0 && in[6] < in[4])
__CPROVER_requires(in[8] >= 0 && in[8] < 16 && in[9] >= 0 && in[9] < 16 && in[10] >= 0 && in[10] < 16 && in[11] >= 0 && in[11] < 16 && in[12] >= 0 && in[12] < 16)
__CPROVER_requires(in[13] >= 0 && in[13] < 16 && in[14] >= 0 && in[14] < 16 && in[15] >= 0 && in[15] < 16 && in[16] >= 0 && in[16] < 16)
__CPROVER_requires(in[17] >= 0 && in[17] < 64 && in[18] >= 0 && in[18] <= 32)
/* calculateSlopeRatio asserts score >= startOfSlope: here it is only called past the start of the slope, after the cap - the
 * specification needs the cap to lie at or above the start of the slope */
__CPROVER_requires(in[11] >= in[8] && in[12] >= in[8])
__CPROVER_assigns(__CPROVER_object_whole(out))
__CPROVER_ensures(out[0] == REWARD)
__CPROVER_ensures(out[1] == (SCORE == 0 ? 0 : REWARD * WEIGHT / SCORE));

/* score of a block = sum over its endorsements whose block of proof is on the best VBK chain of table[height - lowest such height]
 * (table entry 10 + i for i < 4, else 0); difficulty = max(1, (sum of the scores of the `avg` blocks below the tip, as far as they exist) / avg) */
#define RET __CPROVER_return_value
#ifndef AVG
#define AVG 3
#endif
#define EXa(a, j) (sc[4 * (2 * (a) + (j))] != 0)
#define BOPa(a, j) sc[4 * (2 * (a) + (j)) + 1]
#define KN(a, j) (BOPa(a, j) >= 0 && BOPa(a, j) < 3)
#define VH(g) vb[2 * (g)]
#define VBEST(g) (vb[2 * (g) + 1] != 0)
#define CNT(a, j) (EXa(a, j) && KN(a, j) && VBEST(KN(a, j) ? BOPa(a, j) : 0))
#define HT(a, j) VH(KN(a, j) ? BOPa(a, j) : 0)
/* lowest counted height of block a (only used when one counts) */
#define BESTH(a) (CNT(a, 0) && (!CNT(a, 1) || HT(a, 0) <= HT(a, 1)) ? HT(a, 0) : HT(a, 1))
#define TAB(r) ((r) >= 0 && (r) < 4 ? 10 + (r) : 0)
#define TERM(a, j) (CNT(a, j) ? TAB(HT(a, j) - BESTH(a)) : 0)
#define SCORE_OF(a) ((CNT(a, 0) || CNT(a, 1)) ? TERM(a, 0) + TERM(a, 1) : 0)
#define SUMN ((avg > 0 && nchain > 0 ? SCORE_OF(0) : 0) + (avg > 1 && nchain > 1 ? SCORE_OF(1) : 0) + (avg > 2 && nchain > 2 ? SCORE_OF(2) : 0))
int32_t w_rscore_c(const int32_t* sc, const int32_t* vb, int op, int avg, int nchain)
__CPROVER_requires(__CPROVER_is_fresh(sc, 24 * 4) && __CPROVER_is_fresh(vb, 6 * 4) && op >= 0 && op <= 1 && avg == AVG && nchain >= 0 && nchain <= 3)
__CPROVER_requires(VH(0) >= 0 && VH(0) < 1000 && VH(1) >= 0 && VH(1) < 1000 && VH(2) >= 0 && VH(2) < 1000)
__CPROVER_assigns()
__CPROVER_ensures(op != 0 || RET == SCORE_OF(0))
__CPROVER_ensures(op != 1 || RET == (SUMN / AVG < 1 ? 1 : SUMN / AVG));
