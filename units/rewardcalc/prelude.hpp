// C14: the reward specification's regimes - calculateBlockReward, calculateSlopeRatio, getRoundSlope, getMaxScoreThreshold, getRoundRatio,
// calculateMinerReward (src/pop/rewards/default_poprewards_calculator.cpp) together with the round selection proved in unit rewards.
// PopRewardsBigDecimal is modelled as an exact non-negative integer (scale 1: the literal 1.0 is the integer 1) with machine
// + - * / and comparisons: WHICH formula applies is decided here, the 128-bit fixed-point arithmetic itself is not.
#include <cstdint>
#include <veriblock/pop/assert.hpp>
#include "src/pop/keystone_util.cpp"
#define RMAX 4
namespace altintegration {
struct PopRewardsBigDecimal {
  int32_t v;   // (small values: products stay far below 2^31)
  PopRewardsBigDecimal() : v(0) {}
  PopRewardsBigDecimal(double d) : v((int32_t)d) {}   // the literals in the sliced functions are 0.0 and 1.0
  bool operator==(const PopRewardsBigDecimal& o) const { return v == o.v; }
  bool operator<(const PopRewardsBigDecimal& o) const { return v < o.v; }
  bool operator>(const PopRewardsBigDecimal& o) const { return v > o.v; }
  bool operator>=(const PopRewardsBigDecimal& o) const { return v >= o.v; }
  PopRewardsBigDecimal operator*(const PopRewardsBigDecimal& o) const { PopRewardsBigDecimal r; r.v = v * o.v; return r; }
  PopRewardsBigDecimal operator/(const PopRewardsBigDecimal& o) const { PopRewardsBigDecimal r; r.v = v / o.v; return r; }
  PopRewardsBigDecimal operator-(const PopRewardsBigDecimal& o) const { PopRewardsBigDecimal r; r.v = v - o.v; return r; }
  PopRewardsBigDecimal& operator+=(const PopRewardsBigDecimal& o) { v += o.v; return *this; }
  PopRewardsBigDecimal& operator/=(uint64_t d) { v = (int32_t)(v / (int32_t)d); return *this; }
};
// endorsed ALT block shell, VBK tree shell (as in unit bestpub)
#define VB 3
#define EMAX 2
#define ABLK 3
struct EndorsementShell { int blockOfProof; };
struct VbkIndex { int32_t height; bool onBest; int32_t getHeight() const { return height; } };
struct BestChainShell { bool contains(const VbkIndex* p) const { return p != 0 && p->onBest; } };
struct VbkBlockTree {
  VbkIndex* all[VB]; BestChainShell best;
  VbkIndex* getBlockIndex(int hash) const { return ((hash) < 0 || (hash) >= VB) ? (VbkIndex*)0 : const_cast<VbkBlockTree*>(this)->all[hash]; }
  const BestChainShell& getBestChain() const { return const_cast<VbkBlockTree*>(this)->best; }
};
struct AltIndexShell {
  AltIndexShell* pprev; EndorsementShell* e_[EMAX]; size_t ne_;
  struct ByShell { AltIndexShell* o_; size_t size() const { return o_->ne_; } EndorsementShell* operator[](size_t i) const { return o_->e_[i]; } };
  ByShell getEndorsedBy() const { ByShell b; b.o_ = const_cast<AltIndexShell*>(this); return b; }
};
#include "slices/getBestPublicationHeight.inc"

struct RatioTable { int32_t r_[RMAX]; PopRewardsBigDecimal at(uint32_t i) const { __CPROVER_assert(i < RMAX, "roundRatios().at(round): round within the table (std::out_of_range otherwise)"); PopRewardsBigDecimal d; d.v = const_cast<RatioTable*>(this)->r_[i < RMAX ? i : 0]; return d; } };
struct ScoreTable { size_t n; size_t size() const { return n; } PopRewardsBigDecimal operator[](size_t i) const { __CPROVER_assert(i < n, "relativeScoreLookupTable index in range"); PopRewardsBigDecimal r; r.v = (int32_t)(10 + i); return r; } };
struct PopPayoutsParams {
  uint32_t rounds, ksround, flatround; bool useflat; size_t tablen; uint32_t avg_;
  uint32_t difficultyAveragingInterval() const { return avg_; }
  PopRewardsBigDecimal start_, slopeN_, slopeK_, maxN_, maxK_; RatioTable ratios_;
  uint32_t payoutRounds() const { return rounds; }
  uint32_t keystoneRound() const { return ksround; }
  uint32_t flatScoreRound() const { return flatround; }
  bool useFlatScoreRound() const { return useflat; }
  PopRewardsBigDecimal startOfSlope() const { return start_; }
  PopRewardsBigDecimal slopeNormal() const { return slopeN_; }
  PopRewardsBigDecimal slopeKeystone() const { return slopeK_; }
  PopRewardsBigDecimal maxScoreThresholdNormal() const { return maxN_; }
  PopRewardsBigDecimal maxScoreThresholdKeystone() const { return maxK_; }
  const RatioTable& roundRatios() const { return const_cast<PopPayoutsParams*>(this)->ratios_; }
  ScoreTable relativeScoreLookupTable() const { ScoreTable t; t.n = tablen; return t; }
};
struct AltChainParams {
  uint32_t ki; PopPayoutsParams pp;
  uint32_t getKeystoneInterval() const { return ki; }
  const PopPayoutsParams& getPayoutParams() const { return const_cast<AltChainParams*>(this)->pp; }
};
struct TreeShell { AltChainParams params; VbkBlockTree vbk_; const AltChainParams& getParams() const { return const_cast<TreeShell*>(this)->params; } VbkBlockTree& vbk() const { return const_cast<TreeShell*>(this)->vbk_; } };
#include "slices/isKeystoneRound.inc"
#include "slices/isFirstRoundAfterKeystone.inc"
#include "slices/getRoundRatio.inc"
#include "slices/getMaxScoreThreshold.inc"
#include "slices/getRoundSlope.inc"
#include "slices/calculateSlopeRatio.inc"
struct DefaultPopRewardsCalculator {
  TreeShell tree_;
  uint32_t getRoundForBlockNumber(uint32_t height) const;
  PopRewardsBigDecimal getScoreMultiplierFromRelativeBlock(int relativeBlock) const;
  PopRewardsBigDecimal calculateBlockReward(uint32_t height, PopRewardsBigDecimal popscore, PopRewardsBigDecimal popdifficulty) const;
  PopRewardsBigDecimal scoreFromEndorsements(const AltIndexShell& endorsedBlock);
  PopRewardsBigDecimal calculateDifficulty(const AltIndexShell& tip);
  PopRewardsBigDecimal calculateMinerReward(uint32_t vbkRelativeHeight, const PopRewardsBigDecimal& scoreForThisBlock, const PopRewardsBigDecimal& blockReward) const;
};
#include "slices/getRoundForBlockNumber.inc"
#include "slices/getScoreMultiplier.inc"
#include "slices/calculateBlockReward.inc"
#include "slices/calculateMinerReward.inc"
#include "slices/scoreFromEndorsements.inc"
#include "slices/calculateDifficulty.inc"
}  // namespace altintegration
