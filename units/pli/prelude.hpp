// C07 ("the altchain payload index maps each payload id to exactly the blocks that contain it") / C02: detail::PLIAddBlock and
// detail::PLIRemoveBlock for ALT and VBK block indices, sliced from include/veriblock/pop/blockchain/payloads_index_detail.hpp. The index
// object is a ghost counter per (payload id), ids are small integers tagged by payload type (ATV 0.., VTB 10.., VbkBlock 20..).
#include <cstdint>
#include <vector>
#include <veriblock/pop/assert.hpp>
#define IDMAX 30
namespace altintegration {
struct IdShell { int v; int asVector() const { return v; } };
struct PLShell {   // PayloadsIndex: add(id, hash) / remove(id, hash)
  int cnt[IDMAX]; int block; bool hash_ok;
  void add(int id, const int& hash) { __CPROVER_assert(id >= 0 && id < IDMAX, "MODEL: id range"); cnt[id]++; if (hash != block) hash_ok = false; }
  void remove(int id, const int& hash) { __CPROVER_assert(id >= 0 && id < IDMAX, "MODEL: id range"); cnt[id]--; if (hash != block) hash_ok = false; }
};
struct IdxShell {   // BlockIndex<AltBlock> / BlockIndex<VbkBlock>: getHash() and the per-type payload id lists
  int hash_;
  std::vector<IdShell> atv_, vtb_, vbk_;
  const int& getHash() const { return const_cast<IdxShell*>(this)->hash_; }
  const std::vector<IdShell>& getPayloadIds_ATV() const { return const_cast<IdxShell*>(this)->atv_; }
  const std::vector<IdShell>& getPayloadIds_VTB() const { return const_cast<IdxShell*>(this)->vtb_; }
  const std::vector<IdShell>& getPayloadIds_VbkBlock() const { return const_cast<IdxShell*>(this)->vbk_; }
};
struct AltIdx : public IdxShell {};
struct VbkIdx : public IdxShell {};
namespace detail {
#include "slices/PLIAddBlock_alt.inc"
#include "slices/PLIAddBlock_vbk.inc"
#include "slices/PLIRemoveBlock_alt.inc"
#include "slices/PLIRemoveBlock_vbk.inc"
}  // namespace detail
}  // namespace altintegration
