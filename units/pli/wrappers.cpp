#include "prelude.hpp"
using namespace altintegration;
#define REACH __CPROVER_assert(0, "REACH: harness end is reachable (expected to fail)")
extern "C" {
int nondet_int();
void* nondet_ptr();
// in: {nA, a0, a1, nV, v0, v1, nB, b0, b1}: ATV ids (0..9), VTB ids (10..19), VbkBlock ids (20..29)
// kind 0: ALT block index, 1: VBK block index (only its VTB list is indexed); op 0 add, 1 remove, 2 add then remove
// returns the net change of the index entry for id q; *hash_ok: every call named the block's own hash
int w_pli(const int32_t* in, int kind, int op, int q, int* hash_ok) {
  AltIdx a; VbkIdx v;
  IdxShell* s = kind == 0 ? (IdxShell*)&a : (IdxShell*)&v;
  s->hash_ = 7;
  for (int i = 0; i < 2; i++) {
    if (i < in[0]) { IdShell x; x.v = in[1 + i]; s->atv_.push_back(x); }
    if (i < in[3]) { IdShell x; x.v = in[4 + i]; s->vtb_.push_back(x); }
    if (i < in[6]) { IdShell x; x.v = in[7 + i]; s->vbk_.push_back(x); }
  }
  PLShell pl;
  for (int i = 0; i < IDMAX; i++) pl.cnt[i] = 0;
  pl.block = 7; pl.hash_ok = true;
  if (kind == 0) {
    if (op == 0 || op == 2) detail::PLIAddBlock(pl, a);
    if (op == 1 || op == 2) detail::PLIRemoveBlock(pl, a);
  } else {
    if (op == 0 || op == 2) detail::PLIAddBlock(pl, v);
    if (op == 1 || op == 2) detail::PLIRemoveBlock(pl, v);
  }
  *hash_ok = pl.hash_ok ? 1 : 0;
  return pl.cnt[q];
}
void h_pli() { w_pli((const int32_t*)nondet_ptr(), nondet_int(), nondet_int(), nondet_int(), (int*)nondet_ptr()); REACH; }
}
