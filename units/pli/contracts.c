/* C07: the payload index maps each payload id to exactly the blocks that contain it: adding a block adds one entry per payload id of
 * every indexed type (ALT: ATV, VTB, VbkBlock; VBK: VTB), removing it removes exactly those, remove undoes add. */
#include <stddef.h>
#include <stdint.h>
#define RET __CPROVER_return_value
#define OCC2(n, x0, x1, q) (((n) > 0 && (x0) == (q) ? 1 : 0) + ((n) > 1 && (x1) == (q) ? 1 : 0))
#define OCC_ALT(q) (OCC2(in[0], in[1], in[2], q) + OCC2(in[3], in[4], in[5], q) + OCC2(in[6], in[7], in[8], q))
#define OCC_VBK(q) OCC2(in[3], in[4], in[5], q)
#define OCC(q) (kind == 0 ? OCC_ALT(q) : OCC_VBK(q))
int w_pli_c(const int32_t* in, int kind, int op, int q, int* hash_ok)
__CPROVER_requires(__CPROVER_is_fresh(in, 9 * 4) && __CPROVER_is_fresh(hash_ok, sizeof(int)))
__CPROVER_requires(kind >= 0 && kind <= 1 && op >= 0 && op <= 2 && q >= 0 && q < 30)
__CPROVER_requires(in[0] >= 0 && in[0] <= 2 && in[3] >= 0 && in[3] <= 2 && in[6] >= 0 && in[6] <= 2)
__CPROVER_requires(in[1] >= 0 && in[1] < 10 && in[2] >= 0 && in[2] < 10 && in[4] >= 10 && in[4] < 20 && in[5] >= 10 && in[5] < 20 && in[7] >= 20 && in[7] < 30 && in[8] >= 20 && in[8] < 30)
__CPROVER_assigns(*hash_ok)
__CPROVER_ensures(*hash_ok == 1)
__CPROVER_ensures(op != 0 || RET == OCC(q))
__CPROVER_ensures(op != 1 || RET == -OCC(q))
__CPROVER_ensures(op != 2 || RET == 0);
