#include "prelude.hpp"
using namespace altintegration;
#define REACH __CPROVER_assert(0, "REACH: harness end is reachable (expected to fail)")
extern "C" {
void* nondet_ptr();
// in: [0] payload id, [1] hash of the block being mutated, [2] block is applied (BLOCK_ACTIVE), [3] finalized-index hit,
// [4] command group missing, [5] command group verdict, [6..10) block h is on the mutator's chain, [10..26) payload index pl[id][h] in {0,1},
// [26] query id, [27] query hash
// out: [0] net change of pl[qid][qh], [1] net change of the block's id-list entry for qid, [2] ValidationState valid, [3] command group executions
int w_pmut(const int32_t* in, int32_t* out) {
  static BlockShell blk[NH];
  TreeShell tree; PLShell pl; FPLShell fpl;
  for (int h = 0; h < NH; h++) { blk[h].hash_ = h; blk[h].active_ = false; blk[h].onchain_ = in[6 + h] != 0; for (int i = 0; i < NI; i++) blk[h].ids_[i] = 0; tree.known_[h] = &blk[h]; }
  for (int i = 0; i < NI; i++) for (int h = 0; h < NH; h++) pl.cnt_[i][h] = in[10 + NH * i + h];
  BlockShell& b = blk[in[1]];
  b.active_ = in[2] != 0;
  fpl.hit_ = in[3];
  tree.store_.missing_ = in[4] != 0; tree.store_.cg_.verdict_ = in[5] != 0; tree.store_.cg_.executed_ = 0;
  BlockPayloadMutator m(tree, b, pl, fpl);
  for (int i = 0; i < NI; i++) m.ids_.in_[i] = false;
  PayloadShell p; p.id_ = in[0];
  ValidationState st;
  bool ok = m.add(p, st);
  out[0] = pl.cnt_[in[26]][in[27]] - in[10 + NH * in[26] + in[27]];
  out[1] = b.ids_[in[26]];
  out[2] = st.IsValid() ? 1 : 0;
  out[3] = (int32_t)tree.store_.cg_.executed_;
  return ok ? 1 : 0;
}
void h_pmut() { w_pmut((const int32_t*)nondet_ptr(), (int32_t*)nondet_ptr()); REACH; }
}
