// C12 / C02 / C04: AltBlockTree::BlockPayloadMutator::add ("atomic: either adds and applies the payload or returns false and leaves the
// tree unchanged"; "no payload id occurs twice in the chain") with isStatefulDuplicate / isStatelessDuplicate, sliced from
// src/pop/blockchain/alt_block_tree.cpp (the member template instantiated textually for one payload type). The payload index, the
// block's id list, the duplicate set, the command-group store and the chain are ghost models over small integer ids / hashes.
#include <cstdint>
#include <veriblock/pop/assert.hpp>
#include <veriblock/pop/fmt.hpp>
#include <veriblock/pop/validation_state.hpp>
#include <veriblock/pop/blockchain/block_status.hpp>
#define NI 4   /* payload ids 0..NI-1 */
#define NH 4   /* block hashes 0..NH-1 */
namespace altintegration {
struct IdShell { int v; int asVector() const { return v; } };
struct PayloadShell { int id_; IdShell getId() const { IdShell i; i.v = id_; return i; } };
struct BlockShell {
  int hash_; bool active_; bool onchain_; int ids_[NI];
  int getHash() const { return hash_; }
  bool hasFlags(enum BlockValidityStatus f) const { __CPROVER_assert(f == BLOCK_ACTIVE, "MODEL: only BLOCK_ACTIVE is queried"); return active_; }
  void insertPayloadIds_P(const IdShell& id) { ids_[id.v]++; }
  void removePayloadId_P(const IdShell& id) { ids_[id.v]--; }
};
struct HashSetShell {   // const std::set<hash>& PayloadsIndex::find(id): the block hashes that contain the id
  int h_[NH]; size_t n_;
  size_t size() const { return n_; }
  int at_(size_t i) const { return const_cast<HashSetShell*>(this)->h_[i]; }
};
struct PLShell {
  int cnt_[NI][NH]; HashSetShell tmp_;
  void add(int id, int hash) { __CPROVER_assert(id >= 0 && id < NI && hash >= 0 && hash < NH, "MODEL: payload index key range (id, block hash)"); cnt_[id][hash]++; }
  void remove(int id, int hash) { __CPROVER_assert(id >= 0 && id < NI && hash >= 0 && hash < NH, "MODEL: payload index key range (id, block hash)"); cnt_[id][hash]--; }
  const HashSetShell& find(int id) { tmp_.n_ = 0; for (int h = 0; h < NH; h++) if (cnt_[id][h] > 0) tmp_.h_[tmp_.n_++] = h; return tmp_; }
};
struct FPLShell { int hit_; int* find(int) { return hit_ ? &hit_ : (int*)0; } };
struct InsertResult { int first; bool second; };
struct IdSetShell {
  bool in_[NI];
  size_t count(int id) const { return in_[id] ? 1 : 0; }
  InsertResult insert(int id) { InsertResult r; r.first = id; r.second = !in_[id]; in_[id] = true; return r; }
};
struct CommandGroupShell { bool verdict_; unsigned executed_; bool execute(ValidationState& state) { executed_++; if (!verdict_) return state.Invalid("abstract-command-group-failed"); return true; } };
typedef CommandGroupShell* CGPtr;   // std::unique_ptr<CommandGroup> (overloaded operator-> is not supported by the front end)
struct StoreShell {
  CommandGroupShell cg_; bool missing_;
  CGPtr getCommand_P(BlockShell&, const IdShell&, ValidationState& state) { if (missing_) { state.Invalid("abstract-payload-not-found"); return (CommandGroupShell*)0; } return &cg_; }
};
struct ChainShell { bool contains(const BlockShell* b) const { return b != 0 && b->onchain_; } };
struct TreeShell {
  BlockShell* known_[NH]; StoreShell store_;
  BlockShell* getBlockIndex(int hash) { return known_[hash]; }
  StoreShell& getCommandGroupStore() { return store_; }
};
struct BlockPayloadMutator {
  typedef int id_vector_t;
  TreeShell& tree_; BlockShell& block_; IdSetShell ids_; ChainShell chain_; PLShell& pl_; FPLShell& fpl_;
  BlockPayloadMutator(TreeShell& t, BlockShell& b, PLShell& pl, FPLShell& fpl) : tree_(t), block_(b), pl_(pl), fpl_(fpl) {}
  bool isStatefulDuplicate(const id_vector_t& payload_id);
  bool isStatelessDuplicate(const id_vector_t& payload_id);
  bool add(const PayloadShell& payload, ValidationState& state);
};
#include "slices/isStatefulDuplicate.inc"
#include "slices/isStatelessDuplicate.inc"
#include "slices/add.inc"
}  // namespace altintegration
