/* C12/C02: BlockPayloadMutator::add is atomic - "either adds and applies the payload or returns false and leaves the tree unchanged";
 * C04: a payload id already contained in a block of this chain (or a finalized block) is refused. */
#include <stddef.h>
#include <stdint.h>
#define RET __CPROVER_return_value
#define ID in[0]
#define BH in[1]
#define ACTIVE (in[2] != 0)
#define FPLHIT (in[3] != 0)
#define MISSING (in[4] != 0)
#define VERDICT (in[5] != 0)
#define ONCHAIN(h) (in[6 + (h)] != 0)
#define PL(i, h) in[10 + 4 * (i) + (h)]
#define QI in[26]
#define QH in[27]
#define STATEFUL ((PL(ID, 0) > 0 && ONCHAIN(0)) || (PL(ID, 1) > 0 && ONCHAIN(1)) || (PL(ID, 2) > 0 && ONCHAIN(2)) || (PL(ID, 3) > 0 && ONCHAIN(3)) || FPLHIT)
#define ADDED (!STATEFUL && (!ACTIVE || (!MISSING && VERDICT)))
int w_pmut_c(const int32_t* in, int32_t* out)
__CPROVER_requires(__CPROVER_is_fresh(in, 28 * 4) && __CPROVER_is_fresh(out, 4 * 4))
__CPROVER_requires(ID >= 0 && ID < 4 && BH >= 0 && BH < 4 && QI >= 0 && QI < 4 && QH >= 0 && QH < 4 && (in[3] == 0 || in[3] == 1))
__CPROVER_requires(PL(0, 0) >= 0 && PL(0, 0) <= 1 && PL(0, 1) >= 0 && PL(0, 1) <= 1 && PL(0, 2) >= 0 && PL(0, 2) <= 1 && PL(0, 3) >= 0 && PL(0, 3) <= 1)
__CPROVER_requires(PL(1, 0) >= 0 && PL(1, 0) <= 1 && PL(1, 1) >= 0 && PL(1, 1) <= 1 && PL(1, 2) >= 0 && PL(1, 2) <= 1 && PL(1, 3) >= 0 && PL(1, 3) <= 1)
__CPROVER_requires(PL(2, 0) >= 0 && PL(2, 0) <= 1 && PL(2, 1) >= 0 && PL(2, 1) <= 1 && PL(2, 2) >= 0 && PL(2, 2) <= 1 && PL(2, 3) >= 0 && PL(2, 3) <= 1)
__CPROVER_requires(PL(3, 0) >= 0 && PL(3, 0) <= 1 && PL(3, 1) >= 0 && PL(3, 1) <= 1 && PL(3, 2) >= 0 && PL(3, 2) <= 1 && PL(3, 3) >= 0 && PL(3, 3) <= 1)
__CPROVER_assigns(__CPROVER_object_whole(out))
/* accepted <=> not a stateful duplicate and, on an applied block, the payload's commands exist and execute */
__CPROVER_ensures((RET == 1) == ADDED)
__CPROVER_ensures((out[2] == 1) == (RET == 1))
/* atomic: the payload index and the block's id list change by exactly the one (id -> block) entry on success, not at all on failure */
__CPROVER_ensures(out[0] == ((ADDED && QI == ID && QH == BH) ? 1 : 0))
__CPROVER_ensures(out[1] == ((ADDED && QI == ID) ? 1 : 0))
/* commands run at most once, and only on an applied block for a non-duplicate payload */
__CPROVER_ensures(out[3] == ((!STATEFUL && ACTIVE && !MISSING) ? 1 : 0));
