// C15: "(VBK) references the correct previous keystones" - validateKeystones sliced from src/pop/blockchain/vbk_blockchain_util.cpp over a
// contiguous chain of VBK block-index shells (height, hash as an integer, getAncestor by height); keystone_t is the hash type itself
// (trimLE is the identity in the model: which 9 bytes of the hash are compared is not decided here).
#include <cstdint>
#include <veriblock/pop/assert.hpp>
#ifndef KI
#define KI 3
#endif
#define CHMAX (2 * KI + 3)
namespace altintegration {
struct KsShell { int v; KsShell() : v(0) {} bool operator!=(const KsShell& o) const { return v != o.v; } };   // keystone_t(): all zeroes
struct HashShell { int v; KsShell trimLE_keystone() const { KsShell k; k.v = v; return k; } };
struct VbkIdx {
  VbkIdx* base_; int32_t height; HashShell hash_;
  int32_t getHeight() const { return height; }
  HashShell getHash() const { return hash_; }
  // block_index.hpp getAncestor (proved in unit blockindex): the block at that height on this block's chain, nullptr if none
  const VbkIdx* getAncestor(int32_t h) const { if ((h) < 0 || (h) > height) return (VbkIdx*)0; return base_ + h; }   // (const pointer returns are mis-typed by the front end)
};
struct VbkBlock { typedef KsShell keystone_t; KsShell k1, k2; KsShell getPreviousKeystone() const { return k1; } KsShell getSecondPreviousKeystone() const { return k2; } };
struct VbkChainParams { uint32_t getKeystoneInterval() const { return KI; } };
#include "slices/validateKeystones.inc"
}  // namespace altintegration
