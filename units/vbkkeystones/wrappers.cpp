#include "prelude.hpp"
using namespace altintegration;
#define REACH __CPROVER_assert(0, "REACH: harness end is reachable (expected to fail)")
extern "C" {
int nondet_int();
void* nondet_ptr();
// chain: block at height h has hash hs[h] (non-zero); the parent of the new header is the block at height tip
int w_vks(const int32_t* hs, int tip, int32_t k1, int32_t k2) {
  static VbkIdx c[CHMAX];
  for (int h = 0; h < CHMAX; h++) { c[h].base_ = c; c[h].height = h; c[h].hash_.v = hs[h]; }
  VbkBlock b; b.k1.v = k1; b.k2.v = k2;
  VbkChainParams p;
  return validateKeystones(c[tip], b, p) ? 1 : 0;
}
void h_vks() { w_vks((const int32_t*)nondet_ptr(), nondet_int(), nondet_int(), nondet_int()); REACH; }
}
