/* C15: "(VBK) references the correct previous keystones".  For a header on top of the block at height `tip`: the first reference
 * names the highest keystone block strictly below the parent (height K1 = (tip-1) - (tip-1) % KI), the second the keystone before it
 * (K1 - KI); where no such block exists the reference must be all-zero. */
#include <stddef.h>
#include <stdint.h>
#define RET __CPROVER_return_value
#ifndef KI
#define KI 3
#endif
#define CHMAX (2 * KI + 3)
#define K1H ((tip - 1) - (tip - 1) % KI)
#define HAS1 (tip >= 1 && K1H >= 0)
#define K2H (K1H - KI)
#define HAS2 (HAS1 && K2H >= 0)
#define WANT1 (HAS1 ? hs[HAS1 ? K1H : 0] : 0)
#define WANT2 (HAS2 ? hs[HAS2 ? K2H : 0] : 0)
int w_vks_c(const int32_t* hs, int tip, int32_t k1, int32_t k2)
__CPROVER_requires(__CPROVER_is_fresh(hs, CHMAX * 4) && tip >= 0 && tip < CHMAX)
__CPROVER_assigns()
__CPROVER_ensures((RET == 1) == (k1 == WANT1 && k2 == WANT2));
