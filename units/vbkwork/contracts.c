/* C15 (VBK retargeting): t = SUM over the last m = min(N-1, n-1) blocks of  clamp(solve time_i, -6T, +6T) * (N - i - 1),
 * solve time_i = ts[i] - ts[i+1] (block i = i-th ancestor of the parent, i = 0 the parent itself), N = retarget period,
 * T = target block time; and the targets of exactly those m predecessors are summed. */
#include <stddef.h>
#include <stdint.h>
#define RET __CPROVER_return_value
#define NCH 7
#ifndef PERIOD
#define PERIOD 6
#endif
extern uint32_t g_sum_calls;
extern uint64_t g_sum_bits;
#define M ((PERIOD - 1) < (n - 1) ? (uint32_t)(PERIOD - 1) : (n - 1))
#define ST(i) ((int64_t)(int32_t)(ts[i] - ts[(i) + 1]))
#define CL(i) (ST(i) > 6 * (int64_t)blocktime ? 6 * (int64_t)blocktime : ST(i) < -6 * (int64_t)blocktime ? -6 * (int64_t)blocktime : ST(i))
#define TERM(i) ((i) < M ? CL(i) * (int64_t)(PERIOD - (i)-1) : 0)
#define BT(i) ((i) < M ? (uint64_t)bits[(i) + 1] : 0)
/* EARLY: no retargeting, or the parent is below the retarget period: the parent's difficulty is kept (marker out[0] = 0xffffffff) */
#define EARLY (noRetarget != 0 || (uint32_t)h0 < PERIOD)
int32_t w_vbk_weighted_time_c(const uint32_t* ts, const uint32_t* bits, uint32_t n, uint32_t period, uint32_t blocktime, uint32_t* out, int32_t h0, int noRetarget)
__CPROVER_requires(__CPROVER_is_fresh(ts, NCH * 4) && __CPROVER_is_fresh(bits, NCH * 4) && __CPROVER_is_fresh(out, 16))
__CPROVER_requires(n >= 1 && n <= NCH && period == PERIOD && blocktime >= 1 && blocktime <= 65535 && h0 >= 0 && h0 <= 1000000)
__CPROVER_assigns(__CPROVER_object_whole(out), g_sum_calls, g_sum_bits)
__CPROVER_ensures(EARLY ==> (out[0] == 0xffffffffu && RET == 0))
__CPROVER_ensures(!EARLY ==> (int64_t)RET == TERM(0) + TERM(1) + TERM(2) + TERM(3) + TERM(4) + TERM(5))
__CPROVER_ensures(!EARLY ==> (out[0] == M && out[1] == M))
__CPROVER_ensures(!EARLY ==> (((uint64_t)out[3] << 32) | out[2]) == BT(0) + BT(1) + BT(2) + BT(3) + BT(4) + BT(5));
