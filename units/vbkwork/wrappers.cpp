#include "prelude.hpp"
using namespace altintegration;
#define REACH __CPROVER_assert(0, "REACH: harness end is reachable (expected to fail)")
#ifndef PERIOD
#define PERIOD 6
#endif
#ifndef NCH
#define NCH 7
#endif
extern "C" {
uint32_t g_sum_calls;
uint64_t g_sum_bits;
unsigned nondet_unsigned();
void* nondet_ptr();
// ts[0] = parent's timestamp, ts[i] = its i-th ancestor's; n blocks down to the root; out = {iterations, sum calls, checksum lo, checksum hi}
int32_t w_vbk_weighted_time(const uint32_t* ts, const uint32_t* bits, uint32_t n, uint32_t period, uint32_t blocktime, uint32_t* out, int32_t h0, int noRetarget) {
  VbkIndex c[NCH];
  for (uint32_t i = 0; i < NCH; i++) { c[i].ts = ts[i]; c[i].bits = bits[i]; c[i].pprev = (i + 1 < n) ? &c[i + 1] : 0; c[i].height = h0 - (int32_t)i; }
  VbkChainParams p; p.period = PERIOD; p.blocktime = blocktime; p.noRetarget = noRetarget != 0;   // (concrete period: the contract requires period == PERIOD)
  g_sum_calls = 0; g_sum_bits = 0;
  uint32_t it = 0;
  int32_t t = vbk_weighted_time(c[0], p, &it);
  out[0] = it; out[1] = g_sum_calls; out[2] = (uint32_t)g_sum_bits; out[3] = (uint32_t)(g_sum_bits >> 32);
  return t;
}
void h_vbk_weighted_time() { w_vbk_weighted_time((const uint32_t*)nondet_ptr(), (const uint32_t*)nondet_ptr(), nondet_unsigned(), nondet_unsigned(), nondet_unsigned(), (uint32_t*)nondet_ptr(), (int32_t)nondet_unsigned(), (int)nondet_unsigned()); REACH; }
}
