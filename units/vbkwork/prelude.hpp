// C15: the integer core of the VBK difficulty rule: the weighted solve-time loop of getNextWorkRequired<VbkBlock>
// (vbk_blockchain_util.cpp), sliced by lines (from the declaration of its accumulators to the end of the loop) and wrapped in a
// generated function that returns the weighted time t. The 256-bit sum of targets is abstracted (count + 64-bit checksum of the
// compact values fed to fromBits); the floating-point coefficient that follows the loop is out of reach and not sliced.
#include <cstdint>
#include <veriblock/pop/assert.hpp>
extern "C" { extern uint32_t g_sum_calls; extern uint64_t g_sum_bits; }
namespace altintegration {
struct ArithUint256 {
  uint32_t bits;
  ArithUint256() : bits(0) {}
  ArithUint256(int) : bits(0) {}
  static ArithUint256 fromBits(uint32_t b) { ArithUint256 r; r.bits = b; return r; }
  ArithUint256& operator+=(const ArithUint256& o) { g_sum_calls++; g_sum_bits += o.bits; return *this; }
};
struct VbkIndex {
  VbkIndex* pprev;
  int32_t height;
  uint32_t ts, bits;
  int32_t getHeight() const { return height; }
  uint32_t getTimestamp() const { return ts; }
  uint32_t getDifficulty() const { return bits; }
};
struct VbkChainParams {
  uint32_t period, blocktime;
  bool noRetarget;
  bool getPowNoRetargeting() const { return noRetarget; }
  uint32_t getRetargetPeriod() const { return period; }
  uint32_t getTargetBlockTime() const { return blocktime; }
};
// generated frame around the sliced statements
static int32_t vbk_weighted_time(const VbkIndex& prevBlock, const VbkChainParams& params, uint32_t* iterations) {
#include "slices/loop.inc"
  *iterations = i;
  return t;
}
}  // namespace altintegration
