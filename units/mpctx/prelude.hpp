// C13 / C12: the mempool's contextual admission rules - MemPoolBlockTree::checkContextually for VbkBlock, ATV and VTB
// (src/pop/blockchain/mempool_block_tree.cpp) with the real findBlockContainingEndorsement (chain.hpp) - over array models of the
// stable trees (block lookup by id, best chain as a linked list of at most CHN blocks, per-block "contains this endorsement id" flag).
#include <cstdint>
#include <veriblock/pop/assert.hpp>
#include <veriblock/pop/fmt.hpp>
#include <veriblock/pop/validation_state.hpp>
#define CHN 4
namespace altintegration {
struct EndSetShell { bool has_; size_t count(int) const { return has_ ? 1 : 0; } };   // getContainingEndorsements().count(id) for THE id under test
struct Idx {
  int32_t height; Idx* pprev; EndSetShell ends_;
  int32_t getHeight() const { return height; }
  const EndSetShell& getContainingEndorsements() const { return const_cast<Idx*>(this)->ends_; }
};
typedef Idx index_t;
struct ChainShell {
  Idx* tip_; int32_t start_;
  Idx* tip() const { return const_cast<ChainShell*>(this)->tip_; }
  int32_t getStartHeight() const { return start_; }
};
struct ParamsShell {
  int32_t maxReorg_, settle_;
  int32_t getMaxReorgBlocks() const { return maxReorg_; }
  int32_t getEndorsementSettlementInterval() const { return settle_; }
  int getHash(int header) const { return header; }
};
struct StableTree {
  Idx* known_[CHN + 1]; ChainShell best_; ParamsShell params_;
  Idx* getBlockIndex(int hash) const { return ((hash) < 0 || (hash) > CHN) ? (Idx*)0 : const_cast<StableTree*>(this)->known_[hash]; }
  const ChainShell& getBestChain() const { return const_cast<StableTree*>(this)->best_; }
  const ParamsShell& getParams() const { return const_cast<StableTree*>(this)->params_; }
};
struct TempTree { StableTree st_; StableTree& getStableTree() { return st_; } };
struct HdrShell { int hash_; int32_t height_; int getHash() const { return hash_; } int32_t getHeight() const { return height_; } };
typedef HdrShell VbkBlock;
struct PubDataShell { int header; };
struct VbkTxShell { PubDataShell publicationData; };
struct ATV { VbkTxShell transaction; int id_; int getId() const { return id_; } };
struct VbkPopTxShell { HdrShell publishedBlock; };
struct VTB { VbkPopTxShell transaction; HdrShell containingBlock; int id_; int getId() const { return id_; } };
#include "slices/findBlockContainingEndorsement.inc"
struct MemPoolBlockTree {
  TempTree temp_vbk_tree_;
  StableTree* tree_;       // the ALT tree
  TempTree& vbk() { return temp_vbk_tree_; }
  bool checkContextually(const VbkBlock& block, ValidationState& state);
  bool checkContextually(const ATV& atv, ValidationState& state);
  bool checkContextually(const VTB& vtb, ValidationState& state);
};
#include "slices/check_vbk.inc"
#include "slices/check_atv.inc"
#include "slices/check_vtb.inc"
}  // namespace altintegration
