#include "prelude.hpp"
using namespace altintegration;
#define REACH __CPROVER_assert(0, "REACH: harness end is reachable (expected to fail)")
extern "C" {
int nondet_int();
void* nondet_ptr();
// in: [0] n (chain blocks 0..n-1, block n-1 is the tip), [1] height of block 0, [2] chain start height, [3..7) "contains the id" flags,
// [7] settlement window, [8] max reorg blocks, [9] id/hash argument (0..4; >= n: unknown), [10] height a, [11] height b
// kind 0: VbkBlock{hash in[9], height in[10]}; 1: ATV endorsing block in[9]; 2: VTB contained in block hash in[9] of height in[10], publishing height in[11]
int w_mpctx(const int32_t* in, int kind) {
  static Idx b[CHN];
  StableTree vbkst; StableTree alt;
  int n = in[0];
  for (int i = 0; i < CHN; i++) { b[i].height = in[1] + i; b[i].pprev = i == 0 ? (Idx*)0 : &b[i - 1]; b[i].ends_.has_ = in[3 + i] != 0; }
  for (int i = 0; i <= CHN; i++) { Idx* p = (i < n && i < CHN) ? &b[i] : (Idx*)0; vbkst.known_[i] = p; alt.known_[i] = p; }
  vbkst.best_.tip_ = &b[n - 1]; vbkst.best_.start_ = in[2]; vbkst.params_.maxReorg_ = in[8]; vbkst.params_.settle_ = in[7];
  alt.best_ = vbkst.best_; alt.params_ = vbkst.params_;
  MemPoolBlockTree m;
  m.temp_vbk_tree_.st_ = vbkst; m.tree_ = &alt;
  ValidationState st;
  bool ok;
  if (kind == 0) { VbkBlock blk; blk.hash_ = in[9]; blk.height_ = in[10]; ok = m.checkContextually(blk, st); }
  else if (kind == 1) { ATV a; a.id_ = 1; a.transaction.publicationData.header = in[9]; ok = m.checkContextually(a, st); }
  else { VTB v; v.id_ = 1; v.containingBlock.hash_ = in[9]; v.containingBlock.height_ = in[10]; v.transaction.publishedBlock.height_ = in[11]; v.transaction.publishedBlock.hash_ = 0; ok = m.checkContextually(v, st); }
  __CPROVER_assert(ok == st.IsValid(), "verdict agrees with the ValidationState");
  return ok ? 1 : 0;
}
void h_mpctx() { w_mpctx((const int32_t*)nondet_ptr(), nondet_int()); REACH; }
}
