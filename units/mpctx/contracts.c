/* C13 / C12: what the mempool admits contextually.  VBK block: unknown to the stable tree and at most maxReorgBlocks below the tip
 * (a block above the tip is never too old).  ATV: not already contained in one of the last `window` blocks of the active chain, and - if
 * the endorsed block is known - still within the settlement window of the next block.  VTB: not already contained (searching from its
 * containing block if known, else from the tip), and containing height within the settlement window of the published block. */
#include <stddef.h>
#include <stdint.h>
#define RET __CPROVER_return_value
#define N in[0]
#define H(i) (in[1] + (i))
#define START in[2]
#define HAS(i) (in[3 + ((i) < 0 ? 0 : (i))] != 0)
#define WIN in[7]
#define MAXREORG in[8]
#define ARG in[9]
#define KNOWN (ARG >= 0 && ARG < N)
#define TIP (N - 1)
/* the search visits block f-k as its k-th step iff every earlier step was within the window, inside the chain and at or above START */
#define STEP(f, k) ((k) < WIN && (f) - (k) >= 0 && H((f) - (k)) >= START)
#define DUP(f) ((STEP(f, 0) && HAS((f))) || (STEP(f, 0) && STEP(f, 1) && HAS((f) - 1)) || (STEP(f, 0) && STEP(f, 1) && STEP(f, 2) && HAS((f) - 2)) || (STEP(f, 0) && STEP(f, 1) && STEP(f, 2) && STEP(f, 3) && HAS((f) - 3)))
int w_mpctx_c(const int32_t* in, int kind)
__CPROVER_requires(__CPROVER_is_fresh(in, 12 * 4) && kind >= 0 && kind <= 2)
__CPROVER_requires(N >= 1 && N <= 4 && in[1] >= 0 && in[1] < (1 << 29) && START >= 0 && START < (1 << 29) && WIN >= 0 && WIN < (1 << 29) && MAXREORG >= 0 && MAXREORG < (1 << 29))
__CPROVER_requires(ARG >= 0 && ARG <= 4 && in[10] >= 0 && in[10] < (1 << 29) && in[11] >= 0 && in[11] < (1 << 29))
__CPROVER_assigns()
__CPROVER_ensures(kind != 0 || (RET == 1) == (!KNOWN && H(TIP) - in[10] <= MAXREORG))
__CPROVER_ensures(kind != 1 || (RET == 1) == (!DUP(TIP) && (!KNOWN || H(TIP) + 1 <= WIN + H(ARG))))
__CPROVER_ensures(kind != 2 || (RET == 1) == (!DUP(KNOWN ? ARG : TIP) && in[10] <= WIN + in[11]));
