// C13: "None of these operations touches freed memory" - the stale-relation branch of MemPool::cleanUp (src/pop/mempool.cpp): when a
// relation's VBK block is older than the old-blocks window every ATV of the relation is dropped from the relation and from the
// connected map, and the relation itself goes if it holds no VTBs. The std::set of ATVs is a model that tracks node lifetime: erasing
// an element destroys its node, and using an iterator (or a reference obtained through it) to a destroyed node is an obligation.
#include <cstdint>
#include <veriblock/pop/assert.hpp>
#define CAP 3
namespace altintegration {
struct IdShell { int v; };
struct ATV { int id_; IdShell getId() const { IdShell i; i.v = id_; return i; } };
struct VbkBlock { int id_; IdShell getId() const { IdShell i; i.v = id_; return i; } };
typedef ATV* AtvPtr;   // std::shared_ptr<ATV>
struct AtvSet {        // std::set<std::shared_ptr<ATV>, cmp>
  AtvPtr d_[CAP]; bool alive_[CAP]; int n_;
  struct iterator {
    AtvSet* s_; int i_;
    AtvPtr& operator*() const { __CPROVER_assert(i_ >= 0 && i_ < CAP && s_->alive_[i_], "std::set iterator dereferenced after its element was erased (freed node)"); return s_->d_[i_]; }
    iterator& operator++() {
      __CPROVER_assert(i_ >= 0 && i_ < CAP && s_->alive_[i_], "std::set iterator incremented after its element was erased (freed node)");
      __CPROVER_assume(i_ >= 0 && i_ < CAP && s_->alive_[i_]);
      do { i_++; } while (i_ < CAP && !s_->alive_[i_]);
      return *this;
    }
    bool operator!=(const iterator& o) const { return i_ != o.i_; }
  };
  iterator begin() { iterator it; it.s_ = this; it.i_ = 0; while (it.i_ < CAP && !alive_[it.i_]) it.i_++; return it; }
  iterator end() { iterator it; it.s_ = this; it.i_ = CAP; return it; }
  // erase by key: the node is destroyed (its shared_ptr with it)
  size_t erase(const AtvPtr& key) { AtvPtr k = key; size_t c = 0; for (int i = 0; i < CAP; i++) if (alive_[i] && d_[i] == k) { alive_[i] = false; d_[i] = 0; n_--; c++; } return c; }
  // erase by iterator: returns the iterator to the next element
  iterator erase(iterator pos) {
    __CPROVER_assert(pos.i_ >= 0 && pos.i_ < CAP && alive_[pos.i_], "std::set::erase(iterator): iterator dereferenceable");
    __CPROVER_assume(pos.i_ >= 0 && pos.i_ < CAP && alive_[pos.i_]);
    iterator nx = pos; do { nx.i_++; } while (nx.i_ < CAP && !alive_[nx.i_]);
    alive_[pos.i_] = false; d_[pos.i_] = 0; n_--;
    return nx;
  }
  bool empty() const { return n_ == 0; }
};
struct VtbVecShell { int n_; bool empty() const { return n_ == 0; } };
struct VbkPayloadsRelations { VbkBlock* header; AtvSet atvs; VtbVecShell vtbs; };
struct RelEntry { int first; VbkPayloadsRelations* second; };
typedef RelEntry* RelIt;
struct RelMapShell { unsigned erased_; RelIt erase(RelIt it) { erased_++; return it + 1; } };
struct ErasedIdsShell { unsigned calls_; int ids_[CAP + 1]; void erase(const IdShell& id) { if (calls_ < CAP + 1) ids_[calls_] = id.v; calls_++; } };
struct MemPoolShell {
  RelMapShell relations_; ErasedIdsShell stored_atvs_, vbkblocks_;
  int stale_relation_step(RelIt& it, bool tooOld);
};
inline int MemPoolShell::stale_relation_step(RelIt& it, bool tooOld) {
  VbkPayloadsRelations& rel = *it->second;   // mempool.cpp: auto& rel = *it->second;
  for (int once_ = 0; once_ < 1; ++once_) {
#include "slices/tooOld_branch.inc"
    return 0;   // falls through to the rest of the loop body
  }
  return 1;     // `continue`
}
}  // namespace altintegration
