/* C13: cleanUp "forgets removed payloads" and "touches no freed memory": a stale relation loses all its ATVs (each erased from the
 * connected map exactly once); it is erased itself, with its VBK block, exactly when it holds no VTBs. */
#include <stddef.h>
#include <stdint.h>
void w_mpcleanup_c(int n, int nvtb, int tooOld, int32_t* out)
__CPROVER_requires(n >= 0 && n <= 3 && nvtb >= 0 && nvtb <= 2 && __CPROVER_is_fresh(out, 8 * 4))
__CPROVER_assigns(__CPROVER_object_whole(out))
__CPROVER_ensures(tooOld == 0 ? (out[0] == n && out[1] == 0 && out[2] == 0 && out[3] == 0 && out[4] == 0)
                              : (out[0] == 0 && out[1] == n && out[5] == (n > 0 ? 1 : 0) && out[6] == (n > 1 ? 1 : 0) && out[7] == (n > 2 ? 1 : 0)))
__CPROVER_ensures(tooOld == 0 || (nvtb == 0 ? (out[2] == 1 && out[3] == 1 && out[4] == 1) : (out[2] == 0 && out[3] == 0 && out[4] == 0)));
