// native replay for unit mpcleanup: the counterexample (a stale relation that holds at least one ATV) as a history on the REAL MemPool,
// with VBK parameters whose old-blocks window is 5 instead of 12000: submit(ATV) -> connected under the relation of its block of proof;
// the stable VBK tree advances 10 blocks; cleanUp().  Under ASan the pre-fix code reports heap-use-after-free in MemPool::cleanUp.
#include <cstdio>
#include "pop/util/mempool_fixture.hpp"
#include "replay_inputs.hpp"
static bool g_done = false;
// VBK parameters with a small "old blocks" window, so that a relation becomes old after a few blocks instead of 12000
struct SmallWindowVbk : public VbkChainParamsRegTest {
  int32_t getOldBlocksWindow() const noexcept override { return 5; }
};
struct OldRelationFixture : public MemPoolFixture {
  SmallWindowVbk vbkparam2;
  adaptors::InmemStorageImpl storage2{};
  adaptors::PayloadsStorageImpl pp2{storage2};
  adaptors::BlockReaderImpl br2{storage2, altparam};
  AltTreeUnderTest tree2{altparam, vbkparam2, btcparam, pp2, br2};
  MemPool mp2{tree2};
  OldRelationFixture() {
    tree2.btc().bootstrapWithGenesis(GetRegTestBtcBlock());
    tree2.vbk().bootstrapWithGenesis(GetRegTestVbkBlock());
    tree2.bootstrap();
  }
};
// history: submit(ATV) -> connected under the relation of its block of proof; the VBK tree advances past the old-blocks window; cleanUp()
TEST_F(OldRelationFixture, cleanup_of_an_old_relation_that_holds_an_atv) {
  mineAltBlocks(10, chain, /*connectBlocks=*/true, /*setState=*/false);
  for (size_t i = 1; i < chain.size(); i++) ASSERT_TRUE(tree2.acceptBlockHeader(chain[i], state)) << state.toString();
  VbkTx tx = popminer.createVbkTxEndorsingAltBlock(generatePublicationData(chain[5]));
  auto* block = popminer.mineVbkBlocks(1, {tx});
  ATV atv = popminer.createATV(block->getHeader(), tx);
  std::vector<VbkBlock> context;
  fillVbkContext(context, GetRegTestVbkBlock().getHash(), popminer.vbk());
  for (const auto& b : context) { auto r = mp2.submit(b, false, state); ASSERT_TRUE(r.isAccepted()) << state.toString(); state.reset(); }
  auto r = mp2.submit(atv, false, state);
  ASSERT_TRUE(r.isValid()) << state.toString();
  ASSERT_EQ(mp2.getMap<ATV>().count(atv.getId()), 1u);
  // the VBK chain grows by 10 blocks and the stable VBK tree learns them
  auto* last = popminer.vbk().getBestChain().tip();
  popminer.mineVbkBlocks(10);
  std::vector<VbkBlock> more;
  fillVbkContext(more, last->getHash(), popminer.vbk());
  for (const auto& b : context) ASSERT_TRUE(tree2.vbk().acceptBlockHeader(b, state)) << state.toString();
  for (const auto& b : more) ASSERT_TRUE(tree2.vbk().acceptBlockHeader(b, state)) << state.toString();
  printf("relation header height=%d, stable VBK tip=%d, old window=%d\n", (int)block->getHeight(), (int)tree2.vbk().getBestChain().tip()->getHeight(), (int)vbkparam2.getOldBlocksWindow());
  mp2.cleanUp();
  printf("cleanUp returned; connected ATVs=%d\n", (int)mp2.getMap<ATV>().size());
  EXPECT_EQ(mp2.getMap<ATV>().size(), 0u);
  g_done = mp2.getMap<ATV>().size() == 0;
}

int main(int argc, char** argv) {
  ReplayInputs in;
  if (argc < 3 || !in.load(argv[1])) { printf("NOT-REPRODUCED: cannot read inputs\n"); return 2; }
  long long n = in.S("n_wrapper", in.S("n")), tooOld = in.S("tooOld_wrapper", in.S("tooOld"));
  if (n < 1 || tooOld == 0) { printf("NOT-REPRODUCED: no native history for this counterexample (n=%lld tooOld=%lld)\n", n, tooOld); return 0; }
  int gargc = 1; char* gargv[] = {argv[0], nullptr};
  ::testing::InitGoogleTest(&gargc, gargv);
  int rc = RUN_ALL_TESTS();
  (void)rc;
  printf(g_done ? "NOT-REPRODUCED: cleanUp dropped the stale ATV without touching freed memory\n" : "REPRODUCED: the stale ATV is still connected after cleanUp\n");
  return 0;
}
