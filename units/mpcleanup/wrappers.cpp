#include "prelude.hpp"
using namespace altintegration;
#define REACH __CPROVER_assert(0, "REACH: harness end is reachable (expected to fail)")
extern "C" {
int nondet_int();
void* nondet_ptr();
// n ATVs (ids 10, 11, 12) in the relation of VBK block id 5; nvtb VTBs; tooOld as computed by cleanUp
// out = {ATVs left in the relation, stored_atvs_.erase calls, relation erased, vbkblocks_.erase calls, return (1 = continue), erased ids 0..2}
void w_mpcleanup(int n, int nvtb, int tooOld, int32_t* out) {
  static ATV a[CAP]; static VbkBlock hdr; static VbkPayloadsRelations rel; static RelEntry ent[2];
  hdr.id_ = 5; rel.header = &hdr; rel.vtbs.n_ = nvtb; rel.atvs.n_ = 0;
  for (int i = 0; i < CAP; i++) { a[i].id_ = 10 + i; rel.atvs.alive_[i] = i < n; rel.atvs.d_[i] = i < n ? &a[i] : (ATV*)0; if (i < n) rel.atvs.n_++; }
  ent[0].first = 5; ent[0].second = &rel;
  MemPoolShell m; m.relations_.erased_ = 0; m.stored_atvs_.calls_ = 0; m.vbkblocks_.calls_ = 0;
  for (int i = 0; i < CAP + 1; i++) { m.stored_atvs_.ids_[i] = -1; m.vbkblocks_.ids_[i] = -1; }
  RelIt it = &ent[0];
  int r = m.stale_relation_step(it, tooOld != 0);
  out[0] = rel.atvs.n_; out[1] = (int32_t)m.stored_atvs_.calls_; out[2] = (int32_t)m.relations_.erased_; out[3] = (int32_t)m.vbkblocks_.calls_; out[4] = r;
  // the erased ids as a set: bit i = id 10+i erased exactly once
  for (int i = 0; i < CAP; i++) { int c = 0; for (int k = 0; k < CAP + 1; k++) if (m.stored_atvs_.ids_[k] == 10 + i) c++; out[5 + i] = c; }
}
void h_mpcleanup() { w_mpcleanup(nondet_int(), nondet_int(), nondet_int(), (int32_t*)nondet_ptr()); REACH; }
}
