#include "prelude.hpp"
using namespace altintegration;
#define REACH __CPROVER_assert(0, "REACH: harness end is reachable (expected to fail)")
extern "C" {
size_t nondet_size_t();
void* nondet_ptr();
extern const size_t RS_LAYOUT[5];
void check_layout() {
  __CPROVER_assert(sizeof(ReadStream) == RS_LAYOUT[0], "LAYOUT sizeof(ReadStream) equals the C mirror");
  ReadStream* z = (ReadStream*)0;
  __CPROVER_assert((size_t)&z->m_version == RS_LAYOUT[1] && (size_t)&z->m_Pos == RS_LAYOUT[2] &&
                   (size_t)&z->m_Buffer == RS_LAYOUT[3] && (size_t)&z->m_Size == RS_LAYOUT[4],
                   "LAYOUT offsets of ReadStream members equal the C mirror");
}
// out = {index, number of layers}; layer_k (32 bytes) = layer number k of the decoded path (ghost index k)
int w_merkle_raw(void* rs, const uint8_t* subject, int32_t* out, uint8_t* layer_k, size_t k) {
  uint256 subj;
  for (int i = 0; i < 32; i++) subj.data_[i] = subject[i];
  MerklePath mp;
  ValidationState st;
  bool ok = DeserializeFromRaw(*(ReadStream*)rs, subj, mp, st);
  __CPROVER_assert(ok == st.IsValid(), "result false <=> ValidationState invalid");
  out[0] = mp.index;
  out[1] = (int32_t)mp.layers.size();
  if (ok) {
    __CPROVER_assert(mp.subject == subj, "decoded path carries the given subject");
    if (k < mp.layers.size()) for (int i = 0; i < 32; i++) layer_k[i] = mp.layers[k].data_[i];
  }
  return ok;
}
void h_merkle_raw() { check_layout(); w_merkle_raw(nondet_ptr(), (const uint8_t*)nondet_ptr(), (int32_t*)nondet_ptr(), (uint8_t*)nondet_ptr(), nondet_size_t()); REACH; }
int w_merkle_vbk(void* rs, const uint8_t* subject, int32_t* out) {
  uint256 subj;
  for (int i = 0; i < 32; i++) subj.data_[i] = subject[i];
  MerklePath mp;
  ValidationState st;
  bool ok = DeserializeFromVbkEncoding(*(ReadStream*)rs, subj, mp, st);
  __CPROVER_assert(ok == st.IsValid(), "result false <=> ValidationState invalid");
  out[0] = mp.index;
  out[1] = (int32_t)mp.layers.size();
  return ok;
}
void h_merkle_vbk() { check_layout(); w_merkle_vbk(nondet_ptr(), (const uint8_t*)nondet_ptr(), (int32_t*)nondet_ptr()); REACH; }
}
