// C06: MerklePath decoder (src/pop/entities/merkle_path.cpp) on top of the serde unit's real primitives.
#include "../serde/prelude.hpp"
#include <veriblock/pop/blob.hpp>
namespace altintegration {
typedef Blob<32> uint256;
inline void vstd_force_blob32_() { uint256 a; uint256 b(a); b = a; std::vector<uint256> v; std::vector<uint256> w(v); w = v; }
struct MerklePath {   // entities/merkle_path.hpp: the three data members
  int32_t index;
  uint256 subject;
  std::vector<uint256> layers;
  MerklePath() : index(0) {}
};
#include "slices/DeserializeFromRaw_MerklePath.inc"
#include "slices/DeserializeFromVbkEncoding_MerklePath.inc"
}  // namespace altintegration
