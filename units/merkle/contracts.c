/* C06: MerklePath decoders. For every byte string: class invariant of the stream kept, never a read outside the buffer (pointer checks
 * in the real primitives), the number of layers accepted is within [0, MAX_LAYER_COUNT_MERKLE] and nothing larger is ever requested
 * from the allocator (ALLOC obligation inside the vector model, limit = MAX_LAYER_COUNT_MERKLE), every layer is exactly 32 bytes. */
#include <rs_contract.h>
#define MAX_LAYERS 40
int w_merkle_raw_c(void* rs, const uint8_t* subject, int32_t* out, uint8_t* layer_k, size_t k)
RS_FRESH(rs)
__CPROVER_requires(__CPROVER_is_fresh(subject, 32) && __CPROVER_is_fresh(out, 2 * sizeof(int32_t)) && __CPROVER_is_fresh(layer_k, 32))
__CPROVER_assigns(R(rs)->m_Pos, __CPROVER_object_whole(out), __CPROVER_object_whole(layer_k))
RS_KEEPS(rs)
__CPROVER_ensures(RET != 0 ==> (out[1] >= 0 && out[1] <= MAX_LAYERS))
/* raw layout: [n<=4][index] [n<=4][numLayers] [n<=4][= 4] [00 00 00 20] then numLayers x ([32][32 bytes]) : the cursor advanced by exactly that much */
__CPROVER_ensures(RET != 0 ==> R(rs)->m_Pos >= OLDPOS(rs) + 2 + 2 + 4 + 33 * (size_t)out[1])
__CPROVER_ensures(RET != 0 ==> R(rs)->m_Pos <= OLDPOS(rs) + 5 + 5 + 5 + 4 + 33 * (size_t)out[1]);

int w_merkle_vbk_c(void* rs, const uint8_t* subject, int32_t* out)
RS_FRESH(rs)
__CPROVER_requires(__CPROVER_is_fresh(subject, 32) && __CPROVER_is_fresh(out, 2 * sizeof(int32_t)))
__CPROVER_assigns(R(rs)->m_Pos, __CPROVER_object_whole(out))
RS_KEEPS(rs)
__CPROVER_ensures(RET != 0 ==> (out[1] >= 0 && out[1] <= MAX_LAYERS));
