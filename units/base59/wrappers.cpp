#include "prelude.hpp"
using namespace altintegration;
#define REACH __CPROVER_assert(0, "REACH: harness end is reachable (expected to fail)")
#ifndef SMAX
#define SMAX 4
#endif
extern "C" {
size_t nondet_size_t();
void* nondet_ptr();
// text: n characters (any byte values); out: decoded bytes (at most SMAX), *outlen their number
int w_decode59(const char* text, size_t n, uint8_t* out, size_t* outlen, size_t k) {
  std::string s(text, n);
  std::vector<uint8_t> o;
  ValidationState st;
  bool ok = DecodeBase59(s, o, st);
  __CPROVER_assert(ok == st.IsValid(), "result false <=> ValidationState invalid");
  *outlen = o.size();
  for (size_t i = 0; i < o.size() && i < SMAX; i++) out[i] = o[i];
  return ok;
}
void h_decode59() { w_decode59((const char*)nondet_ptr(), nondet_size_t(), (uint8_t*)nondet_ptr(), (size_t*)nondet_ptr(), nondet_size_t()); REACH; }

// encode n bytes, then decode the text again: enc = the text (at most 2*SMAX chars), back = decoded bytes
size_t w_encode59(const uint8_t* in, size_t n, char* enc, uint8_t* back, size_t* backlen, int* dec_ok) {
  std::string s = EncodeBase59(in, n);
  for (size_t i = 0; i < s.size() && i < 8; i++) enc[i] = s.data()[i];
  std::vector<uint8_t> o;
  ValidationState st;
  *dec_ok = DecodeBase59(s, o, st);
  *backlen = o.size();
  for (size_t i = 0; i < o.size() && i < SMAX; i++) back[i] = o.data()[i];
  return s.size();
}
void h_encode59() { w_encode59((const uint8_t*)nondet_ptr(), nondet_size_t(), (char*)nondet_ptr(), (uint8_t*)nondet_ptr(), (size_t*)nondet_ptr(), (int*)nondet_ptr()); REACH; }
}
