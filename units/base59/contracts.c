/* C06 "never reads outside the supplied buffers" / C18 "reject every malformed text": DecodeBase59.
 * For every byte string of length <= SMAX (ANY byte values, including >= 0x80): no out-of-bounds access (bounds / pointer checks in the
 * sliced code, in particular the index into the 128-entry table), accepted <=> every character belongs to the base-59 alphabet
 * "123456789ABCDEFGHJKLMNPQRSTUVWXYZabcdefghijkmnopqrstuvwxyz0", and the decoded number of a 1- or 2-character text is its base-59 value. */
#include <stddef.h>
#include <stdint.h>
#define RET __CPROVER_return_value
#ifndef SMAX
#define SMAX 4
#endif
/* alphabet membership and digit value, written from the alphabet string (not from the table) */
#define U(c) ((unsigned char)(c))
#define INALPHA(c) ((U(c) >= '1' && U(c) <= '9') || (U(c) >= 'A' && U(c) <= 'Z' && U(c) != 'I' && U(c) != 'O') || \
                    (U(c) >= 'a' && U(c) <= 'z' && U(c) != 'l') || U(c) == '0')
#define DIGIT(c) (U(c) == '0' ? 58 : U(c) <= '9' ? U(c) - '1' : U(c) <= 'H' ? U(c) - 'A' + 9 : U(c) <= 'N' ? U(c) - 'J' + 17 : U(c) <= 'Z' ? U(c) - 'P' + 22 : \
                  U(c) <= 'k' ? U(c) - 'a' + 33 : U(c) - 'm' + 44)
#define ALLIN(t, n) (((n) < 1 || INALPHA((t)[0])) && ((n) < 2 || INALPHA((t)[1])) && ((n) < 3 || INALPHA((t)[2])) && ((n) < 4 || INALPHA((t)[3])))
int w_decode59_c(const char* text, size_t n, uint8_t* out, size_t* outlen, size_t k)
__CPROVER_requires(n <= SMAX && __CPROVER_is_fresh(text, SMAX) && __CPROVER_is_fresh(out, SMAX) && __CPROVER_is_fresh(outlen, sizeof(size_t)))
__CPROVER_assigns(__CPROVER_object_whole(out), *outlen)
__CPROVER_ensures((RET != 0) == ALLIN(text, n))
__CPROVER_ensures(RET != 0 ==> *outlen <= n)
/* value of short texts: one character = its digit (0 decodes to a single zero byte); two characters = d0*59 + d1 (at most 3480: two bytes) */
__CPROVER_ensures((RET != 0 && n == 1) ==> (*outlen == 1 && out[0] == DIGIT(text[0])))
__CPROVER_ensures((RET != 0 && n == 2 && DIGIT(text[0]) != 0) ==> (DIGIT(text[0]) * 59 + DIGIT(text[1]) < 256
                    ? (*outlen == 1 && out[0] == DIGIT(text[0]) * 59 + DIGIT(text[1]))
                    : (*outlen == 2 && out[0] * 256 + out[1] == DIGIT(text[0]) * 59 + DIGIT(text[1]))));

/* EncodeBase59 on n <= 3 bytes: no out-of-bounds access (index obligations of the vector / string models: the scratch buffer of 2n
 * bytes is never left), every produced character belongs to the alphabet, and DecodeBase59(EncodeBase59(b)) == b */
#define ENCIN(e, len) (((len) < 1 || INALPHA((e)[0])) && ((len) < 2 || INALPHA((e)[1])) && ((len) < 3 || INALPHA((e)[2])) && ((len) < 4 || INALPHA((e)[3])) && \
                       ((len) < 5 || INALPHA((e)[4])) && ((len) < 6 || INALPHA((e)[5])))
size_t w_encode59_c(const uint8_t* in, size_t n, char* enc, uint8_t* back, size_t* backlen, int* dec_ok)
#ifndef NENC
#define NENC 3
#endif
__CPROVER_requires(n <= NENC && __CPROVER_is_fresh(in, 3) && __CPROVER_is_fresh(enc, 8) && __CPROVER_is_fresh(back, SMAX) && __CPROVER_is_fresh(backlen, sizeof(size_t)) && __CPROVER_is_fresh(dec_ok, sizeof(int)))
__CPROVER_assigns(__CPROVER_object_whole(enc), __CPROVER_object_whole(back), *backlen, *dec_ok)
__CPROVER_ensures(RET <= 6 && ENCIN(enc, RET))
__CPROVER_ensures((n == 0) == (RET == 0))
__CPROVER_ensures(*dec_ok != 0 && *backlen == n)
__CPROVER_ensures((n < 1 || back[0] == in[0]) && (n < 2 || back[1] == in[1]) && (n < 3 || back[2] == in[2]));
