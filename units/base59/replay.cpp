// native replay for unit base59: the REAL DecodeBase59 (sanitizer build) on the counterexample's text.
// A text containing a byte >= 0x80 indexes the 128-entry table with a negative char: ASan reports a global-buffer-overflow when the
// access leaves the table's redzone; independently of ASan, the verdict is compared with "every character is in the alphabet".
#include <cstdio>
#include <cstring>
#include <veriblock/pop/base59.hpp>
#include <veriblock/pop/validation_state.hpp>
#include "replay_inputs.hpp"
using namespace altintegration;
int main(int argc, char** argv) {
  ReplayInputs in;
  if (argc < 2 || !in.load(argv[1])) { printf("NOT-REPRODUCED: cannot read inputs\n"); return 2; }
  std::vector<uint8_t> t = in.bytes("text");
  size_t n = (size_t)in.S("n", (long long)t.size());
  if (n > t.size()) n = t.size();
  std::string s((const char*)t.data(), n);
  static const char* alpha = "123456789ABCDEFGHJKLMNPQRSTUVWXYZabcdefghijkmnopqrstuvwxyz0";
  bool allin = true, high = false;
  for (unsigned char c : s) { allin = allin && c != 0 && strchr(alpha, c) != nullptr; high = high || c >= 0x80; }
  printf("text(%zu)=", n);
  for (unsigned char c : s) printf("%02x", c);
  printf(" all-in-alphabet=%d has-byte>=0x80=%d\n", (int)allin, (int)high);
  fflush(stdout);
  std::vector<uint8_t> out;
  ValidationState st;
  bool ok = DecodeBase59(s, out, st);   // ASan aborts here if the table is read out of bounds far enough
  printf("DecodeBase59=%d\n", (int)ok);
  if (ok != allin) { printf("REPRODUCED: accepted <=> every character in the base-59 alphabet is violated on the real code\n"); return 1; }
  if (high && !ok) { printf("NOT-REPRODUCED as a wrong verdict (the out-of-range table read returned a negative entry by luck); the read itself is the defect\n"); return 0; }
  printf("NOT-REPRODUCED\n");
  return 0;
}
