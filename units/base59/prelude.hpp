// C06 / C18: DecodeBase59 (src/pop/base59.cpp) with its helper divmod256 and the index table, over string / vector models.
#include <cstdint>
#include <limits>
#include <string>
#include <vector>
#include <veriblock/pop/assert.hpp>
#include <veriblock/pop/validation_state.hpp>
namespace altintegration {
static const size_t g_kBase59 = 59;
static const uint32_t g_kBase_256 = 256;
#include <limits>
#include "slices/g_Base59Alphabet.inc"
#include "slices/g_Indexes.inc"
#include "slices/divmod256.inc"
#include "slices/divmod59.inc"
#include "slices/EncodeBase59.inc"
#include "slices/DecodeBase59.inc"
}  // namespace altintegration
