#include "prelude.hpp"
using namespace altintegration;
#define REACH __CPROVER_assert(0, "REACH: harness end is reachable (expected to fail)")
extern "C" {
int g_tr[TRMAX]; int g_tn;
int nondet_int();
unsigned nondet_unsigned();
void* nondet_ptr();
// in: [0] status of the block, [1] status of its parent, [2] has payloads, [3] number of command groups (0..3), [4..7) their verdicts,
//     [7] root height, [8] applied block count, [9] block height; op 0 applyBlock, 1 unapplyBlock, 2 applyBlock then (if it succeeded) unapplyBlock
// out: [0] status afterwards, [1] applied block count afterwards, [2] invalidateSubtree calls, [3] its reason, [4] its fork-resolution flag,
//      [5] state valid, [6] trace length, [7..7+TRMAX) trace
int w_ab(const uint32_t* in, int op, uint32_t* out) {
  static Idx2 blk, parent; static CommandGroup cg[GMAX];
  parent.pprev = 0; parent.status = in[1]; parent.height = (int32_t)in[9] - 1; parent.dirty = false; parent.finalized = false; parent.pnext.n = 1;
  blk.pprev = &parent; blk.status = in[0]; blk.height = (int32_t)in[9]; blk.dirty = false; blk.finalized = false; blk.pnext.n = 0; blk.has_payloads_ = in[2] != 0;
  TreeShellAB ed; StoreShellAB store;
  ed.root.h = (int32_t)in[7]; ed.appliedBlockCount = in[8]; ed.best_.n_ = 1; ed.invalidated_ = 0; ed.inv_reason_ = 0; ed.inv_fr_ = true;
  store.vec_.n_ = in[3];
  for (int i = 0; i < GMAX; i++) { cg[i].id = i; cg[i].ok_ = in[4 + i] != 0; store.vec_.d_[i] = &cg[i]; }
  g_tn = 0;
  for (int i = 0; i < TRMAX; i++) g_tr[i] = 0;
  PopStateMachine sm(ed, store);
  ValidationState st;
  bool r = true;
  if (op == 0 || op == 2) r = sm.applyBlock(blk, st);
  if (op == 1 || (op == 2 && r)) sm.unapplyBlock(blk);
  out[0] = blk.status; out[1] = ed.appliedBlockCount; out[2] = (uint32_t)ed.invalidated_; out[3] = ed.inv_reason_; out[4] = ed.inv_fr_ ? 1 : 0;
  out[5] = st.IsValid() ? 1 : 0; out[6] = (uint32_t)g_tn;
  for (int i = 0; i < TRMAX; i++) out[7 + i] = (uint32_t)g_tr[i];
  return r ? 1 : 0;
}
void h_ab() { w_ab((const uint32_t*)nondet_ptr(), nondet_int(), (uint32_t*)nondet_ptr()); REACH; }
}
