/* C02 ("applies either all or none of the block's commands"), C04 ("a block violating any rule is reported invalid": BLOCK_FAILED_POP on
 * its subtree), C20 (BLOCK_CAN_BE_APPLIED only on the single applied chain).  Status bits as in block_status.hpp. */
#include <stddef.h>
#include <stdint.h>
#define RET __CPROVER_return_value
#define TRMAX 8
extern int g_tr[TRMAX]; extern int g_tn;
#define ST in[0]
#define PST in[1]
#define HASPL (in[2] != 0)
#define NG ((int)in[3])
#define OKG(i) (in[4 + (i)] != 0)
#define LEVEL(s) ((s) & 7u)
#define FAILED(s) (((s) & 0xE0u) != 0)
#define ACTIVE 0x200u
#define F_POP 0x40u
#define TR(i) ((int)out[7 + (i)])
#define LEN ((int)out[6])
#define NGE (HASPL ? NG : 0)
/* first failing group (NGE if none) */
#define FG (NGE > 0 && !OKG(0) ? 0 : NGE > 1 && !OKG(1) ? 1 : NGE > 2 && !OKG(2) ? 2 : NGE)
#define BVALID (!FAILED(ST) && LEVEL(ST) >= 1)
#define APPLIES (BVALID && FG == NGE)
/* the level decision (unit applydec): fully valid only directly on top of the single applied chain */
#define ONTOP (!FAILED(PST) && LEVEL(PST) >= 4 && (int32_t)in[9] == (int32_t)in[7] + (int32_t)in[8])
#define NEWLEVEL (ONTOP ? 4u : (LEVEL(ST) > 3u ? LEVEL(ST) : 3u))
int w_ab_c(const uint32_t* in, int op, uint32_t* out)
__CPROVER_requires(__CPROVER_is_fresh(in, 10 * 4) && __CPROVER_is_fresh(out, (7 + TRMAX) * 4) && op >= 0 && op <= 2 && in[3] <= 3)
/* well-formed status words (level 0..4, never BLOCK_CAN_BE_APPLIED with BLOCK_FAILED_POP), heights and counters small */
__CPROVER_requires(LEVEL(ST) <= 4 && LEVEL(PST) <= 4 && !(LEVEL(ST) == 4 && (ST & F_POP)) && !(LEVEL(PST) == 4 && (PST & F_POP)) && in[7] < 100000 && in[8] < 100000 && in[9] >= 1 && in[9] < 1000000)
/* applyBlock asserts that a valid block is connected; unapplyBlock that something is applied */
__CPROVER_requires(op == 1 || !BVALID || LEVEL(ST) >= 2)
__CPROVER_requires(op == 0 || in[8] >= 1 || op == 2)
/* the parent of a block being applied is itself applied (assertBlockCanBeApplied), and an applied block is at least
 * BLOCK_CAN_BE_APPLIED_MAYBE_WITH_OTHER_CHAIN (postcondition of applyBlock below) */
__CPROVER_requires(op == 1 || LEVEL(PST) >= 3)
__CPROVER_assigns(__CPROVER_object_whole(out), __CPROVER_object_whole(g_tr), g_tn)
/* applyBlock: succeeds iff the block is not marked invalid and every command group executes */
__CPROVER_ensures(op == 1 || RET == (APPLIES ? 1 : 0))
__CPROVER_ensures(op != 0 || (out[5] == 1) == (RET == 1))
/* success: groups executed in order, level raised as decided, BLOCK_ACTIVE set, block counted, nothing invalidated */
__CPROVER_ensures(!(op == 0 && APPLIES) || (LEN == NGE && (NGE < 1 || TR(0) == 1) && (NGE < 2 || TR(1) == 2) && (NGE < 3 || TR(2) == 3) &&
    out[0] == (((ST & ~7u) | NEWLEVEL) | ACTIVE) && out[1] == in[8] + 1 && out[2] == 0))
/* failure inside the groups: executed prefix reverted in reverse order; the subtree is invalidated with BLOCK_FAILED_POP, without fork
 * resolution; flags and counter untouched (the recorded invalidateSubtree does not touch the status word here) */
__CPROVER_ensures(!(op == 0 && BVALID && FG < NGE) || (LEN == 2 * FG && (FG < 1 || (TR(0) == 1 && TR(2 * FG - 1) == -1)) && (FG < 2 || (TR(1) == 2 && TR(2 * FG - 2) == -2)) &&
    out[0] == ST && out[1] == in[8] && out[2] == 1 && out[3] == F_POP && out[4] == 0))
/* a block marked invalid: refused, nothing happens */
__CPROVER_ensures(!(op == 0 && !BVALID) || (LEN == 0 && out[0] == ST && out[1] == in[8] && out[2] == 0))
/* unapplyBlock: all groups reverted in reverse order, BLOCK_ACTIVE cleared, block un-counted */
__CPROVER_ensures(op != 1 || (LEN == NGE && (NGE < 1 || TR(0) == -NGE) && (NGE < 2 || TR(1) == -(NGE - 1)) && (NGE < 3 || TR(2) == -(NGE - 2)) && out[0] == (ST & ~ACTIVE) && out[1] == in[8] - 1))
/* applyBlock then unapplyBlock: every group's effects are reverted, the block is not ACTIVE, the counter is what it was (the raised
 * validity level stays - it is a fact learned about the block) */
__CPROVER_ensures(!(op == 2 && APPLIES) || (LEN == 2 * NGE && out[1] == in[8] && (out[0] & ACTIVE) == 0 && (NGE < 1 || (TR(0) == 1 && TR(2 * NGE - 1) == -1)) && (NGE < 2 || (TR(1) == 2 && TR(2 * NGE - 2) == -2))));
