// C02 / C04 / C20: PopStateMachine::applyBlock and unapplyBlock as whole functions (pop_state_machine.hpp) on the REAL BlockIndex status
// members (unit blockindex's slices). Command groups are ghost-trace recorders with an abstract verdict (their own rollback order is
// unit cmdgroup); ed_.invalidateSubtree is recorded (the real one is unit subtree).
#include "../blockindex/prelude.hpp"
#include <veriblock/pop/fmt.hpp>
#include <veriblock/pop/validation_state.hpp>
#define GMAX 3
#define TRMAX 8
extern "C" { extern int g_tr[TRMAX]; extern int g_tn; }
inline void tr_push(int v) { if (g_tn < TRMAX) g_tr[g_tn] = v; g_tn++; }
namespace altintegration {
struct CommandGroup {
  int id; bool ok_;
  bool execute(ValidationState& state) { if (!ok_) return state.Invalid("abstract-command-group-failed"); tr_push(id + 1); return true; }
  void unExecute() { tr_push(-(id + 1)); }
};
typedef CommandGroup* CGPtr;          // std::unique_ptr<CommandGroup>
typedef CGPtr* cg_it_t;               // vector<CGPtr>::const_iterator
struct cg_rit_t {                     // std::reverse_iterator<const_iterator>
  cg_it_t base;
  explicit cg_rit_t(cg_it_t b) : base(b) {}
  cg_rit_t& operator++() { --base; return *this; }
  bool operator!=(const cg_rit_t& o) const { return base != o.base; }
  CGPtr operator*() const { return *(base - 1); }
};
struct CGVec {                        // std::vector<std::unique_ptr<CommandGroup>>
  CGPtr d_[GMAX]; size_t n_;
  cg_it_t cbegin() { return d_; }
  cg_it_t cend() { return d_ + n_; }
  cg_rit_t rbegin() { return cg_rit_t(d_ + n_); }
  cg_rit_t rend() { return cg_rit_t(d_); }
};
struct Idx2 : public BlockIndex {
  struct block_t { typedef int32_t height_t; };
  bool has_payloads_;
  Idx2() : BlockIndex((int32_t)0), has_payloads_(false) {}   // (the real class has no default constructor: root constructor, fields set by the wrapper)
  bool hasPayloads() const { return has_payloads_; }
};
typedef Idx2 index_t;
namespace internal {
// the precondition asserts of applyBlock / unapplyBlock (block not yet applied, parent applied, no applied descendants, ...) are not
// sliced: the contracts state them as preconditions where the verdicts depend on them
inline void assertBlockCanBeApplied(index_t&) {}
inline void assertBlockCanBeUnapplied(index_t&) {}
}
struct StoreShellAB { CGVec vec_; CGVec* getCommands(index_t&, ValidationState&) { return &vec_; } };
struct RootShellAB { int32_t h; int32_t getHeight() const { return h; } };
struct BestChainAB { size_t n_; size_t blocksCount() const { return n_; } };
struct TreeShellAB {
  RootShellAB root; uint32_t appliedBlockCount; BestChainAB best_;
  int invalidated_; uint32_t inv_reason_; bool inv_fr_;
  RootShellAB& getRoot() { return root; }
  BestChainAB& getBestChain() { return best_; }
  void invalidateSubtree(index_t& i, enum BlockValidityStatus reason, bool fr) { invalidated_++; inv_reason_ = (uint32_t)reason; inv_fr_ = fr; (void)i; }
};
struct PopStateMachine {
  TreeShellAB& ed_; StoreShellAB& commandGroupStore_;
  PopStateMachine(TreeShellAB& e, StoreShellAB& s) : ed_(e), commandGroupStore_(s) {}
  typedef Idx2::block_t block_t;
#include "slices/applyBlock.inc"
#include "slices/unapplyBlock.inc"
};
}  // namespace altintegration
