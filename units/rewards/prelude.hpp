// C14-U1: round / regime selection of the POP rewards calculator, sliced from src/pop/rewards/default_poprewards_calculator.cpp.
// Shells: AltChainParams (keystone interval, payout params), PopPayoutsParams (scalar parameters and the two tables as views).
#include <cstdint>
#include <veriblock/pop/assert.hpp>
#include "src/pop/keystone_util.cpp"
#ifndef TMAX
#define TMAX 8
#endif
namespace altintegration {
struct PopPayoutsParams {
  uint32_t rounds, ksround, flatround;
  bool useflat;
  uint32_t payoutRounds() const { return rounds; }
  uint32_t keystoneRound() const { return ksround; }
  uint32_t flatScoreRound() const { return flatround; }
  bool useFlatScoreRound() const { return useflat; }
};
struct AltChainParams {
  uint32_t ki;
  PopPayoutsParams pp;
  uint32_t getKeystoneInterval() const { return ki; }
  const PopPayoutsParams& getPayoutParams() const { return const_cast<AltChainParams*>(this)->pp; }
};
struct TreeShell { AltChainParams params; const AltChainParams& getParams() const { return const_cast<TreeShell*>(this)->params; } };
#include "slices/isKeystoneRound.inc"
#include "slices/isFirstRoundAfterKeystone.inc"
struct DefaultPopRewardsCalculator {
  TreeShell tree_;
  uint32_t getRoundForBlockNumber(uint32_t height) const;
};
#include "slices/getRoundForBlockNumber.inc"
}  // namespace altintegration
