// C14-U1: round / regime selection of the POP rewards calculator, sliced from src/pop/rewards/default_poprewards_calculator.cpp.
// Shells: AltChainParams (keystone interval, payout params), PopPayoutsParams (scalar parameters and the two tables as views).
#include <cstdint>
#include <veriblock/pop/assert.hpp>
#include "src/pop/keystone_util.cpp"
#ifndef TMAX
#define TMAX 8
#endif
namespace altintegration {
// PopRewardsBigDecimal shell: only identity matters here - which table entry (or the constant 0.0) a value is
struct PopRewardsBigDecimal {
  int idx;   // position in relativeScoreLookupTable, -1 = constructed from the literal 0.0
  PopRewardsBigDecimal() : idx(-2) {}
  PopRewardsBigDecimal(double) : idx(-1) {}   // the only literal in the sliced function is 0.0
};
struct ScoreTable {   // std::vector<PopRewardsBigDecimal> relativeScoreLookupTable(): size() and operator[]
  size_t n;
  size_t size() const { return n; }
  PopRewardsBigDecimal operator[](size_t i) const { __CPROVER_assert(i < n, "relativeScoreLookupTable index in range"); PopRewardsBigDecimal r; r.idx = (int)i; return r; }
};
struct PopPayoutsParams {
  size_t tablen;
  ScoreTable relativeScoreLookupTable() const { ScoreTable t; t.n = tablen; return t; }
  uint32_t rounds, ksround, flatround;
  bool useflat;
  uint32_t payoutRounds() const { return rounds; }
  uint32_t keystoneRound() const { return ksround; }
  uint32_t flatScoreRound() const { return flatround; }
  bool useFlatScoreRound() const { return useflat; }
};
struct AltChainParams {
  uint32_t ki;
  PopPayoutsParams pp;
  uint32_t getKeystoneInterval() const { return ki; }
  const PopPayoutsParams& getPayoutParams() const { return const_cast<AltChainParams*>(this)->pp; }
};
struct TreeShell { AltChainParams params; const AltChainParams& getParams() const { return const_cast<TreeShell*>(this)->params; } };
#include "slices/isKeystoneRound.inc"
#include "slices/isFirstRoundAfterKeystone.inc"
struct DefaultPopRewardsCalculator {
  TreeShell tree_;
  uint32_t getRoundForBlockNumber(uint32_t height) const;
  PopRewardsBigDecimal getScoreMultiplierFromRelativeBlock(int relativeBlock) const;
};
#include "slices/getRoundForBlockNumber.inc"
#include "slices/getScoreMultiplier.inc"
}  // namespace altintegration
