#include "prelude.hpp"
using namespace altintegration;
#define REACH __CPROVER_assert(0, "REACH: harness end is reachable (expected to fail)")
#ifndef KI
#define KI 5
#endif
extern "C" {
unsigned nondet_unsigned();
// returns the round; *first = isFirstRoundAfterKeystone(height); *ksr = isKeystoneRound(round)
uint32_t w_round(uint32_t height, uint32_t rounds, uint32_t ksround, int* first, int* ksr) {
  DefaultPopRewardsCalculator c;
  c.tree_.params.ki = KI;
  c.tree_.params.pp.rounds = rounds; c.tree_.params.pp.ksround = ksround; c.tree_.params.pp.flatround = 0; c.tree_.params.pp.useflat = false; c.tree_.params.pp.tablen = 0;
  uint32_t r = c.getRoundForBlockNumber(height);
  *first = isFirstRoundAfterKeystone(c.tree_.params, height);
  *ksr = isKeystoneRound(c.tree_.params.pp, r);
  return r;
}
// which table entry pays an endorsement published relativeBlock blocks after the best one: index, or -1 for the constant 0.0
int w_multiplier(int relativeBlock, size_t tablen) {
  DefaultPopRewardsCalculator c;
  c.tree_.params.ki = KI;
  c.tree_.params.pp.rounds = 4; c.tree_.params.pp.ksround = 3; c.tree_.params.pp.flatround = 0; c.tree_.params.pp.useflat = false;
  c.tree_.params.pp.tablen = tablen;
  return c.getScoreMultiplierFromRelativeBlock(relativeBlock).idx;
}
void h_multiplier() { w_multiplier((int)nondet_unsigned(), (size_t)nondet_unsigned()); REACH; }
void h_round() { int a, b; w_round(nondet_unsigned(), nondet_unsigned(), nondet_unsigned(), &a, &b); REACH; }
}
