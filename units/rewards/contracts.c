/* C14-U1: which payout round a block belongs to (the index into roundRatios and the selector of the keystone regime).
 * Parameter well-formedness taken as precondition: payoutRounds >= 1 and keystoneRound < payoutRounds (so that every returned round
 * indexes roundRatios, which has payoutRounds entries; the library's default: 4 rounds, keystone round 3). */
#include <stddef.h>
#include <stdint.h>
#define RET __CPROVER_return_value
#ifndef KI
#define KI 5
#endif
uint32_t w_round_c(uint32_t height, uint32_t rounds, uint32_t ksround, int* first, int* ksr)
__CPROVER_requires(__CPROVER_is_fresh(first, sizeof(int)) && __CPROVER_is_fresh(ksr, sizeof(int)))
__CPROVER_requires(height <= 0x7fffffffu && rounds >= 1 && rounds <= 16 && ksround < rounds)
__CPROVER_assigns(*first, *ksr)
/* the round always indexes the ratio table */
__CPROVER_ensures(RET < rounds)
/* keystone heights are paid in the keystone round */
__CPROVER_ensures(height % KI == 0 ==> RET == ksround)
/* the other heights cycle through rounds 0 .. payoutRounds-2 by their distance from the keystone */
__CPROVER_ensures((height % KI != 0 && rounds >= 2) ==> RET == (height % KI) % (rounds - 1))
__CPROVER_ensures((height % KI != 0 && rounds == 1) ==> RET == 0)
__CPROVER_ensures((*ksr != 0) == (RET == ksround))
/* "first round after a keystone" <=> fewer than payoutRounds blocks past the keystone */
__CPROVER_ensures((*first != 0) == (height % KI < rounds));

/* "score from relative VBK publication height": every entry of the lookup table is used, nothing outside it */
int w_multiplier_c(int relativeBlock, size_t tablen)
__CPROVER_requires(tablen <= 0x7fffffffUL)
__CPROVER_assigns()
__CPROVER_ensures(RET == ((relativeBlock >= 0 && (size_t)relativeBlock < tablen) ? relativeBlock : -1));
