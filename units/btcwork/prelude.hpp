// C15: decision structure of the BTC difficulty rule: getNextWorkRequired<BtcBlock> and calculateNextWorkRequired sliced from
// btc_blockchain_util.cpp. Block indices are shells (pprev, height, timestamp, bits). 256-bit arithmetic is abstracted:
// ArithUint256 is an opaque token whose fromBits/toBits/*=//=/compare are uninterpreted (recorded in ghost variables) - the
// arithmetic itself is under contract in unit arith.
#include <cstdint>
#include <veriblock/pop/assert.hpp>
extern "C" {
extern uint32_t g_limit_bits;   // toBits(powLimit)
extern uint32_t g_retarget_result, g_retarget_calls, g_retarget_first_time, g_retarget_tip_bits, g_mul_arg, g_div_arg;
extern int g_new_gt_limit;      // arbitrary verdict of 'bnNew > bnPowLimit'
}
namespace altintegration {
struct ArithUint256 {
  int tag;        // 0 = powLimit, 1 = value derived from the tip's bits
  uint32_t bits;  // compact form this token would encode to (abstract)
  ArithUint256() : tag(0), bits(0) {}
  static ArithUint256 fromBits(uint32_t b) { ArithUint256 r; r.tag = 1; r.bits = b; g_retarget_tip_bits = b; return r; }
  ArithUint256& operator*=(uint32_t m) { g_mul_arg = m; return *this; }
  ArithUint256& operator/=(uint32_t d) { g_div_arg = d; return *this; }
  bool operator>(const ArithUint256&) const { return g_new_gt_limit != 0; }
  uint32_t toBits() const { return tag == 0 ? g_limit_bits : g_retarget_result; }
};
struct PowLimitShell { };
struct BtcChainParams {
  bool noRetarget, allowMin;
  uint32_t timespan, spacing, interval;
  bool getPowNoRetargeting() const { return noRetarget; }
  bool getAllowMinDifficultyBlocks() const { return allowMin; }
  uint32_t getPowTargetTimespan() const { return timespan; }
  uint32_t getPowTargetSpacing() const { return spacing; }
  uint32_t getDifficultyAdjustmentInterval() const { return interval; }
  ArithUint256 getPowLimit() const { return ArithUint256(); }
};
struct BtcIndex {
  BtcIndex* pprev;
  int32_t height;
  uint32_t ts, bits;
  int32_t getHeight() const { return height; }
  uint32_t getTimestamp() const { return ts; }
  uint32_t getDifficulty() const { return bits; }
  const BtcIndex* getAncestor(int32_t h) const {   // block_index.hpp getAncestor: walk pprev down to height h
    if (h < 0 || h > height) return 0;
    BtcIndex* i = const_cast<BtcIndex*>(this);
    while (i != 0 && i->height > h) i = i->pprev;
    return i;
  }
};
struct BtcHdr { uint32_t ts; uint32_t getTimestamp() const { return ts; } };
#include "slices/calculateNextWorkRequired.inc"
#include "slices/getNextWorkRequired.inc"
}  // namespace altintegration
