#include "prelude.hpp"
using namespace altintegration;
#define REACH __CPROVER_assert(0, "REACH: harness end is reachable (expected to fail)")
#ifndef NCH
#define NCH 6
#endif
#ifndef INTERVAL
#define INTERVAL 4
#endif
extern "C" {
uint32_t g_limit_bits, g_retarget_result, g_retarget_calls, g_retarget_first_time, g_retarget_tip_bits, g_mul_arg, g_div_arg;
int g_new_gt_limit;
unsigned nondet_unsigned();
void* nondet_ptr();
// chain: c[0] = prevBlock (the tip), c[i+1] = its i-th ancestor; n blocks down to the root; heights h0, h0-1, ...
// cfg = {noRetarget, allowMin, timespan, spacing, limit_bits, retarget_result, new_gt_limit}
// out = {mul_arg, div_arg, tip_bits passed to fromBits}
uint32_t w_nextwork(const uint32_t* ts, const uint32_t* bits, uint32_t n, int32_t h0, uint32_t block_ts, const uint32_t* cfg, uint32_t* out) {
  BtcIndex c[NCH];
  for (uint32_t i = 0; i < NCH; i++) { c[i].ts = ts[i]; c[i].bits = bits[i]; c[i].height = h0 - (int32_t)i; c[i].pprev = (i + 1 < n) ? &c[i + 1] : 0; }
  BtcChainParams p;
  p.noRetarget = cfg[0] != 0; p.allowMin = cfg[1] != 0; p.timespan = cfg[2]; p.spacing = cfg[3]; p.interval = INTERVAL;
  g_limit_bits = cfg[4]; g_retarget_result = cfg[5]; g_new_gt_limit = (int)cfg[6];
  g_mul_arg = 0; g_div_arg = 0; g_retarget_tip_bits = 0;
  BtcHdr b; b.ts = block_ts;
  uint32_t r = getNextWorkRequired(c[0], b, p);
  out[0] = g_mul_arg; out[1] = g_div_arg; out[2] = g_retarget_tip_bits;
  return r;
}
void h_nextwork() { w_nextwork((const uint32_t*)nondet_ptr(), (const uint32_t*)nondet_ptr(), nondet_unsigned(), (int32_t)nondet_unsigned(), nondet_unsigned(), (const uint32_t*)nondet_ptr(), (uint32_t*)nondet_ptr()); REACH; }
}
