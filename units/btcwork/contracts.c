/* C15: "carries the difficulty the chain's retargeting rule prescribes after that parent" - the DECISION STRUCTURE of Bitcoin's rule
 * (which branch applies, which ancestor's bits are returned, which timespan enters the retarget and how it is clamped).
 * Chain: index 0 = parent (height h0), index i = its i-th ancestor; n blocks exist down to the root (the chain is complete: n == h0 + 1
 * is NOT required - a pruned root is allowed, as in the library).  INTERVAL = difficulty adjustment interval (concrete). */
#include <stddef.h>
#include <stdint.h>
#define RET __CPROVER_return_value
#define NCH 6
#ifndef INTERVAL
#define INTERVAL 4
#endif
extern uint32_t g_limit_bits, g_retarget_result, g_retarget_calls, g_retarget_first_time, g_retarget_tip_bits, g_mul_arg, g_div_arg;
extern int g_new_gt_limit;
#define NORETARGET cfg[0]
#define ALLOWMIN cfg[1]
#define TIMESPAN cfg[2]
#define SPACING cfg[3]
#define LIMIT cfg[4]
#define RETARGET cfg[5]
#define GT cfg[6]
#define ONBOUNDARY ((h0 + 1) % INTERVAL == 0)
/* walk-back of the testnet rule: first block, from the parent backwards, that is the root, or starts a period, or is not at the limit */
#define STOP(i) ((i) + 1 >= n || (h0 - (int32_t)(i)) % INTERVAL == 0 || bits[i] != LIMIT)
#define WALK (STOP(0) ? bits[0] : STOP(1) ? bits[1] : STOP(2) ? bits[2] : STOP(3) ? bits[3] : STOP(4) ? bits[4] : bits[5])
/* clamp of the actual timespan to [T/4, 4T] as Bitcoin defines it (pow.cpp: int64_t nActualTimespan = pindexLast->GetBlockTime() -
 * nFirstBlockTime): the difference of the two block times is a SIGNED quantity, so a period whose last block carries an earlier time
 * than its first one clamps to T/4, not to 4T */
#define ACTUAL ((int64_t)ts[0] - (int64_t)ts[INTERVAL - 1])
#define CLAMPED (ACTUAL < (int64_t)(TIMESPAN / 4) ? TIMESPAN / 4 : ACTUAL > (int64_t)TIMESPAN * 4 ? TIMESPAN * 4 : (uint32_t)ACTUAL)
uint32_t w_nextwork_c(const uint32_t* ts, const uint32_t* bits, uint32_t n, int32_t h0, uint32_t block_ts, const uint32_t* cfg, uint32_t* out)
__CPROVER_requires(__CPROVER_is_fresh(ts, NCH * 4) && __CPROVER_is_fresh(bits, NCH * 4) && __CPROVER_is_fresh(cfg, 7 * 4) && __CPROVER_is_fresh(out, 3 * 4))
__CPROVER_requires(n >= 1 && n <= NCH && h0 >= 0 && h0 <= 1000000 && (uint32_t)h0 + 1 >= n)
/* on a boundary the library needs the ancestor at h0 - (INTERVAL-1) (it asserts it): the chain reaches that far */
__CPROVER_requires(!ONBOUNDARY || n >= INTERVAL)
__CPROVER_requires(TIMESPAN <= 0x3fffffffu && SPACING <= 0x3fffffffu && ts[0] <= 0x7fffffffu)
__CPROVER_assigns(__CPROVER_object_whole(out), g_limit_bits, g_retarget_result, g_retarget_tip_bits, g_mul_arg, g_div_arg, g_new_gt_limit)
/* off a boundary: parent's bits, or (min-difficulty rule) the limit for a late block, else the walk-back result */
__CPROVER_ensures((!ONBOUNDARY && !ALLOWMIN) ==> RET == bits[0])
__CPROVER_ensures((!ONBOUNDARY && ALLOWMIN && block_ts > ts[0] + SPACING * 2) ==> RET == LIMIT)
__CPROVER_ensures((!ONBOUNDARY && ALLOWMIN && !(block_ts > ts[0] + SPACING * 2)) ==> RET == WALK)
/* on a boundary: no-retarget chains keep the parent's bits; otherwise target(parent) * clamp(actual) / T, capped at the limit */
__CPROVER_ensures((ONBOUNDARY && NORETARGET) ==> RET == bits[0])
__CPROVER_ensures((ONBOUNDARY && !NORETARGET) ==> (out[2] == bits[0] && out[0] == CLAMPED && out[1] == TIMESPAN && RET == (GT ? LIMIT : RETARGET)));
