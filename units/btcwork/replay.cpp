// native replay for unit btcwork: the counterexample's timestamps (tip of the period, first block of the period) and the main-net
// parameters are put on a REAL chain of 2016 BlockIndex<BtcBlock> objects; the library's getNextWorkRequired is compared with Bitcoin's
// definition of the retarget (pow.cpp CalculateNextWorkRequired: signed 64-bit timespan, clamp to [T/4, 4T], target * span / T, cap).
#include <cstdio>
#include <unistd.h>
#include <memory>
#include <vector>
#include <veriblock/pop/arith_uint256.hpp>
#include <veriblock/pop/blockchain/block_index.hpp>
#include <veriblock/pop/blockchain/btc_blockchain_util.hpp>
#include <veriblock/pop/blockchain/btc_chain_params.hpp>
#include <veriblock/pop/entities/btcblock.hpp>
#include "replay_inputs.hpp"
using namespace altintegration;
int main(int argc, char** argv) {
  ReplayInputs in;
  if (argc < 3 || !in.load(argv[1])) { printf("NOT-REPRODUCED: cannot read inputs\n"); return 2; }
  std::vector<uint8_t> tb = in.bytes("ts");
  if (tb.size() < 16) { printf("NOT-REPRODUCED: no timestamp array in the counterexample\n"); return 0; }
  auto u32 = [&](size_t i) { return (uint32_t)tb[4 * i] | ((uint32_t)tb[4 * i + 1] << 8) | ((uint32_t)tb[4 * i + 2] << 16) | ((uint32_t)tb[4 * i + 3] << 24); };
  // the harness uses an interval of 4: ts[0] is the tip of the period, ts[3] its first block
  uint32_t tsLast = u32(0), tsFirst = u32(3);
  BtcChainParamsMain params;
  const int N = (int)params.getDifficultyAdjustmentInterval();
  const uint32_t bits = 0x1c0ffff0;   // a target well below the limit, so that neither result is capped
  std::vector<std::unique_ptr<BlockIndex<BtcBlock>>> chain;
  chain.emplace_back(new BlockIndex<BtcBlock>((int32_t)0));
  for (int i = 1; i < N; i++) chain.emplace_back(new BlockIndex<BtcBlock>(chain.back().get()));
  for (int i = 0; i < N; i++) {
    uint32_t t = i == 0 ? tsFirst : i == N - 1 ? tsLast : tsFirst;
    chain[i]->setHeader(BtcBlock(1, uint256(), uint256(), t, bits, 0));
  }
  BtcBlock next(1, uint256(), uint256(), tsLast + 600, bits, 0);
  const BtcChainParams& bp = params;
  uint32_t got = getNextWorkRequired(*chain.back(), next, bp);
  // Bitcoin's definition
  int64_t T = params.getPowTargetTimespan();
  int64_t span = (int64_t)tsLast - (int64_t)tsFirst;
  if (span < T / 4) span = T / 4;
  if (span > T * 4) span = T * 4;
  ArithUint256 bn = ArithUint256::fromBits(bits);
  bn *= (uint32_t)span;
  bn /= (uint32_t)T;
  ArithUint256 limit = params.getPowLimit();
  if (bn > limit) bn = limit;
  uint32_t want = bn.toBits();
  printf("tip time=%u first time=%u (signed span %lld): library bits=%08x, Bitcoin's rule bits=%08x\n", tsLast, tsFirst, (long long)((int64_t)tsLast - (int64_t)tsFirst), got, want);
  printf(got != want ? "REPRODUCED: the BTC tree demands a different difficulty than Bitcoin's retargeting rule\n" : "NOT-REPRODUCED: same difficulty\n");
  fflush(stdout);
  _exit(0);   // (a BlockIndex asserts on destruction unless it was detached by the tree; the replay owns no tree)
}
