// C02 / C20 ("payload effects being applied on top of the parent and reverted in reverse order"): AddEndorsement::UnExecute undoes
// AddEndorsement::Execute - both sliced from commands/addendorsement.hpp - over block shells that carry the three endorsement lists with
// the semantics proved for the real PopState (unit popstate: eraseLast* removes the last occurrence) and of std::multimap (emplace after
// the equal keys, lower_bound = first of the equal keys).
#include <cstdint>
#include <veriblock/pop/assert.hpp>
#include <veriblock/pop/fmt.hpp>
#include <veriblock/pop/validation_state.hpp>
#define LMAX 3
namespace altintegration {
struct Endo { int id; int containingHash, endorsedHash, blockOfProof; };
struct SP { Endo* p_; Endo* get() const { return p_; } };   // std::shared_ptr<endorsement_t>
struct CEntry { int first; SP second; };
struct CStore { CEntry d_[LMAX]; int n_; CEntry* end() { return d_ + n_; } };
struct PtrList {
  Endo* d_[LMAX]; int n_;
  void push(Endo* e) { __CPROVER_assert(n_ < LMAX, "MODEL: list capacity"); __CPROVER_assume(n_ < LMAX); d_[n_++] = e; }
  bool eraseLast(Endo* e) { int at = -1; for (int i = 0; i < LMAX; i++) if (i < n_ && d_[i] == e) at = i; if (at < 0) return false; for (int i = 0; i + 1 < LMAX; i++) if (i >= at && i + 1 < n_) d_[i] = d_[i + 1]; n_--; return true; }
};
struct Blk {
  int32_t height; Blk* anc;
  CStore cont_; PtrList by_, bop_;
  int32_t getHeight() const { return height; }
  Blk* getAncestor(int32_t) { return anc; }
  // multimap::emplace(e->id, e): after the entries with an equal key (the model keeps entries ordered by insertion among equal keys; all keys here are equal or absent)
  void insertContainingEndorsement(SP e) { __CPROVER_assert(cont_.n_ < LMAX, "MODEL: list capacity"); __CPROVER_assume(cont_.n_ < LMAX); cont_.d_[cont_.n_].first = e.p_->id; cont_.d_[cont_.n_].second = e; cont_.n_++; }
  void insertEndorsedBy(Endo* e) { by_.push(e); }
  void insertBlockOfProofEndorsement(Endo* e) { bop_.push(e); }
  // multimap::lower_bound(id): the first entry whose key is not less than id (entries here carry the key id or a greater one)
  CEntry* findContainingEndorsement(int id) { for (int i = 0; i < LMAX; i++) if (i < cont_.n_ && cont_.d_[i].first >= id) return &cont_.d_[i]; return cont_.end(); }
  CStore& getContainingEndorsements() { return cont_; }
  bool eraseLastFromEndorsedBy(Endo* e) { return by_.eraseLast(e); }
  bool eraseLastFromBlockOfProofEndorsement(Endo* e) { return bop_.eraseLast(e); }
  void removeContainingEndorsement(CEntry* it) { int at = (int)(it - cont_.d_); for (int i = 0; i + 1 < LMAX; i++) if (i >= at && i + 1 < cont_.n_) cont_.d_[i] = cont_.d_[i + 1]; cont_.n_--; }
};
struct Params { uint32_t si; uint32_t getEndorsementSettlementInterval() const { return si; } };
struct Tree { Blk* byhash[3]; Params p; Blk* getBlockIndex(int h) { return byhash[h]; } const Params& getParams() const { return const_cast<Tree*>(this)->p; } };
struct AddEndorsementShell {
  Tree* ing_; Tree* ed_; SP e_;
#include "slices/Execute.inc"
#include "slices/UnExecute.inc"
};
}  // namespace altintegration
