/* C02/C20: AddEndorsement::UnExecute is the inverse of Execute on the three endorsement lists, as sequences of endorsement ids. */
#include <stddef.h>
#include <stdint.h>
#define RET __CPROVER_return_value
#define HAS(k) ((pre >> (k)) & 1u)
int w_aeu_c(unsigned pre, int oldid, int undo, int32_t* out)
__CPROVER_requires(__CPROVER_is_fresh(out, 9 * 4) && pre <= 7 && (undo == 0 || undo == 1))
/* an earlier endorsement in the containing store has an id not less than the new one's only if it IS that id (the store is keyed by
 * id and UnExecute looks the entry up with lower_bound; an unrelated greater key in front would be a different endorsement) */
__CPROVER_requires(oldid >= 0 && oldid <= 7)
/* consistency of the state on entry: an endorsement held by the containing store is also referenced from its endorsed block and its
 * block of proof (with the same id the earlier endorsement names the same three blocks) */
__CPROVER_requires(!(HAS(0) && oldid == 7) || (HAS(1) && HAS(2)))
__CPROVER_assigns(__CPROVER_object_whole(out))
__CPROVER_ensures(RET == 1)
/* after Execute alone: the new endorsement (id 7) is appended to each list */
__CPROVER_ensures(undo == 1 || (out[0] == HAS(0) + 1 && out[3] == HAS(1) + 1 && out[6] == HAS(2) + 1 && out[HAS(0) ? 2 : 1] == 7 && out[3 + (HAS(1) ? 2 : 1)] == 7 && out[6 + (HAS(2) ? 2 : 1)] == 7))
/* after Execute; UnExecute: every list holds the ids it held before */
__CPROVER_ensures(undo == 0 || (out[0] == HAS(0) && out[3] == HAS(1) && out[6] == HAS(2) && (!HAS(0) || out[1] == oldid) && (!HAS(1) || out[4] == oldid) && (!HAS(2) || out[7] == oldid)));
