#include "prelude.hpp"
using namespace altintegration;
#define REACH __CPROVER_assert(0, "REACH: harness end is reachable (expected to fail)")
extern "C" {
int nondet_int();
void* nondet_ptr();
// pre: bit0 containing store holds an earlier endorsement, bit1 endorsedBy does, bit2 the block-of-proof list does; the earlier endorsement
// has id oldid (may equal the new id 7); undo: 1 = call UnExecute after a successful Execute
// out = per list {n, id0, id1} (containing store, endorsedBy, block of proof) -> 9 ints
int w_aeu(unsigned pre, int oldid, int undo, int32_t* out) {
  static Blk c, e, b; static Endo old, en;
  old.id = oldid; old.containingHash = 0; old.endorsedHash = 1; old.blockOfProof = 2;
  en.id = 7; en.containingHash = 0; en.endorsedHash = 1; en.blockOfProof = 2;
  Blk* all[3] = {&c, &e, &b};
  for (int i = 0; i < 3; i++) { all[i]->height = 0; all[i]->anc = 0; all[i]->cont_.n_ = 0; all[i]->by_.n_ = 0; all[i]->bop_.n_ = 0; }
  c.height = 5; e.height = 3; c.anc = &e;
  SP so; so.p_ = &old;
  if (pre & 1) c.insertContainingEndorsement(so);
  if (pre & 2) e.insertEndorsedBy(&old);
  if (pre & 4) b.insertBlockOfProofEndorsement(&old);
  Tree ed, ing;
  ed.byhash[0] = &c; ed.byhash[1] = &e; ed.byhash[2] = 0; ing.byhash[0] = 0; ing.byhash[1] = 0; ing.byhash[2] = &b;
  ed.p.si = 10; ing.p.si = 0;
  AddEndorsementShell cmd; cmd.ing_ = &ing; cmd.ed_ = &ed; cmd.e_.p_ = &en;
  ValidationState st;
  bool r = cmd.Execute(st);
  if (r && undo) cmd.UnExecute();
  out[0] = c.cont_.n_; out[1] = c.cont_.n_ > 0 ? c.cont_.d_[0].second.p_->id : -1; out[2] = c.cont_.n_ > 1 ? c.cont_.d_[1].second.p_->id : -1;
  out[3] = e.by_.n_;   out[4] = e.by_.n_ > 0 ? e.by_.d_[0]->id : -1;             out[5] = e.by_.n_ > 1 ? e.by_.d_[1]->id : -1;
  out[6] = b.bop_.n_;  out[7] = b.bop_.n_ > 0 ? b.bop_.d_[0]->id : -1;           out[8] = b.bop_.n_ > 1 ? b.bop_.d_[1]->id : -1;
  return r ? 1 : 0;
}
void h_aeu() { w_aeu((unsigned)nondet_int(), nondet_int(), nondet_int(), (int32_t*)nondet_ptr()); REACH; }
}
