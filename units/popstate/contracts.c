/* C02: "payload effects ... reverted": eraseLastFromEndorsedBy is the exact inverse of insertEndorsedBy; C10: every change of the list
 * marks the block dirty.  in = {n, e0..e3}; out = {n, e0..e4, dirty}. */
#include <stddef.h>
#include <stdint.h>
#define RET __CPROVER_return_value
#define N in[0]
#define E(i) in[1 + (i)]
/* index of the last occurrence of x among the first n entries, -1 if none */
#define LAST (N > 3 && E(3) == x ? 3 : N > 2 && E(2) == x ? 2 : N > 1 && E(1) == x ? 1 : N > 0 && E(0) == x ? 0 : -1)
#define AFTER_ERASE(i) ((i) < LAST ? E(i) : E((i) + 1 < 4 ? (i) + 1 : 3))
int w_pstate_c(const int32_t* in, int op, int x, int32_t* out)
__CPROVER_requires(__CPROVER_is_fresh(in, 5 * 4) && __CPROVER_is_fresh(out, 7 * 4) && op >= 0 && op <= 2 && x >= 0 && x < 3)
__CPROVER_requires(N >= 0 && N <= 4 && E(0) >= 0 && E(0) < 3 && E(1) >= 0 && E(1) < 3 && E(2) >= 0 && E(2) < 3 && E(3) >= 0 && E(3) < 3 && (op == 1 || N <= 3))
__CPROVER_assigns(__CPROVER_object_whole(out))
/* insert: appended at the end, everything before unchanged, dirty */
__CPROVER_ensures(op != 0 || (out[0] == N + 1 && out[1 + N] == x && out[6] == 1 && (N < 1 || out[1] == E(0)) && (N < 2 || out[2] == E(1)) && (N < 3 || out[3] == E(2))))
/* eraseLast: found <=> x occurs; removes exactly the last occurrence, keeps the order of the others; dirty iff something was removed */
__CPROVER_ensures(op != 1 || (RET == (LAST >= 0 ? 1 : 0) && out[6] == RET && out[0] == N - RET))
__CPROVER_ensures((op != 1 || LAST < 0) || ((out[0] < 1 || out[1] == AFTER_ERASE(0)) && (out[0] < 2 || out[2] == AFTER_ERASE(1)) && (out[0] < 3 || out[3] == AFTER_ERASE(2))))
__CPROVER_ensures((op != 1 || LAST >= 0) || ((N < 1 || out[1] == E(0)) && (N < 2 || out[2] == E(1)) && (N < 3 || out[3] == E(2)) && (N < 4 || out[4] == E(3))))
/* insert then eraseLast: the list is exactly what it was, whatever it held */
__CPROVER_ensures(op != 2 || (RET == 1 && out[0] == N && (N < 1 || out[1] == E(0)) && (N < 2 || out[2] == E(1)) && (N < 3 || out[3] == E(2))));
