// C02 / C07 / C10: the endorsedBy list of PopState (include/veriblock/pop/blockchain/pop/pop_state.hpp) - insertEndorsedBy and
// eraseLastFromEndorsedBy with the real erase_last_item_if (include/veriblock/pop/algorithm.hpp) - over the std::vector model.
// AddEndorsement::UnExecute undoes Execute through these two: erasing the LAST occurrence makes insert;erase an exact inverse even when
// the same endorsement pointer occurs several times.
#include <cstdint>
#include <vector>
#include <veriblock/pop/assert.hpp>
namespace altintegration {
struct EndoShell { int id; };
typedef EndoShell endorsement_t;
struct lam_rm;
#include "slices/erase_last_item_if.inc"
#include "slices/lam_rm.inc"
struct PopState {
  std::vector<endorsement_t*> _endorsedBy;   // (std::vector<const endorsement_t*>: pointer-to-const elements are mis-typed by the front end)
  bool dirty_;
  void setDirty() { dirty_ = true; }
#include "slices/insertEndorsedBy.inc"
#include "slices/eraseLastFromEndorsedBy.inc"
};
}  // namespace altintegration
