#include "prelude.hpp"
using namespace altintegration;
#define REACH __CPROVER_assert(0, "REACH: harness end is reachable (expected to fail)")
extern "C" {
int nondet_int();
void* nondet_ptr();
// in = {n, e0..e3}: the list holds endorsements number e_i (0..2); op 0 insert(x), 1 eraseLast(x), 2 insert(x) then eraseLast(x)
// out = {n, e0..e4, dirty}; returns eraseLast's result (1 for op 0)
int w_pstate(const int32_t* in, int op, int x, int32_t* out) {
  static EndoShell pool[3];
  PopState s; s.dirty_ = false;
  for (int i = 0; i < 4; i++) if (i < in[0]) s._endorsedBy.push_back(&pool[in[1 + i]]);
  bool r = true;
  if (op == 0 || op == 2) s.insertEndorsedBy(&pool[x]);
  if (op == 1 || op == 2) r = s.eraseLastFromEndorsedBy(&pool[x]);
  out[0] = (int32_t)s._endorsedBy.size();
  for (int i = 0; i < 5; i++) out[1 + i] = (size_t)i < s._endorsedBy.size() ? (int32_t)(s._endorsedBy.data()[i] - pool) : -1;
  out[6] = s.dirty_ ? 1 : 0;
  return r ? 1 : 0;
}
void h_pstate() { w_pstate((const int32_t*)nondet_ptr(), nondet_int(), nondet_int(), (int32_t*)nondet_ptr()); REACH; }
}
