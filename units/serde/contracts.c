/* C06 / C11: contracts for the serialization primitives of src/pop/serde.cpp and the serde.hpp templates.
 * Readers: class invariant of ReadStream kept, result slice inside the buffer, exact accept condition, lengths inside [min,max].
 * Writers: bytes equal the format definition (ghost index k = "for every byte"), *Size() == bytes written, decode(encode(x)) == x. */
#include <rs_contract.h>
#ifndef OUTMAX
#define OUTMAX 48
#endif
#define BUF(rs, i) (R(rs)->m_Buffer[(i)])
#define OLDBUF(rs, off) (R(rs)->m_Buffer[OLDPOS(rs) + (off)])

int w_checkRange_c(uint64_t num, uint64_t min, uint64_t max)
__CPROVER_assigns()
__CPROVER_ensures((RET != 0) == (min <= num && num <= max));

/* [L: 1 byte][L bytes]   accepted <=> the length byte is there, min <= L <= max, and L bytes follow */
#define SBL_L(rs) ((size_t)OLDBUF(rs, 0))
int w_readSingleByteLenValue_c(void* rs, uint64_t minLen, uint64_t maxLen, const uint8_t** out_ptr, size_t* out_size)
RS_FRESH(rs)
__CPROVER_requires(__CPROVER_is_fresh(out_ptr, sizeof(*out_ptr)) && __CPROVER_is_fresh(out_size, sizeof(*out_size)))
__CPROVER_assigns(R(rs)->m_Pos, *out_ptr, *out_size)
RS_KEEPS(rs)
__CPROVER_ensures((RET != 0) == (OLDREM(rs) >= 1 && minLen <= SBL_L(rs) && SBL_L(rs) <= maxLen && OLDREM(rs) - 1 >= SBL_L(rs)))
__CPROVER_ensures(RET != 0 ==> (*out_size == SBL_L(rs) && *out_ptr == R(rs)->m_Buffer + OLDPOS(rs) + 1 && R(rs)->m_Pos == OLDPOS(rs) + 1 + SBL_L(rs)))
__CPROVER_ensures(RET != 0 ==> (minLen <= *out_size && *out_size <= maxLen && OLDPOS(rs) + 1 + *out_size <= R(rs)->m_Size));

/* [n: 1 byte, n <= sizeof T][n bytes big-endian]  */
#define BE_N(rs) ((size_t)OLDBUF(rs, 0))
#define BE_VAL(rs) ((BE_N(rs) == 0 ? (uint64_t)0 : BE_N(rs) == 1 ? (uint64_t)OLDBUF(rs, 1) : BE_N(rs) == 2 ? ((uint64_t)OLDBUF(rs, 1) << 8 | OLDBUF(rs, 2)) : \
                     BE_N(rs) == 3 ? ((uint64_t)OLDBUF(rs, 1) << 16 | (uint64_t)OLDBUF(rs, 2) << 8 | OLDBUF(rs, 3)) : \
                     BE_N(rs) == 4 ? ((uint64_t)OLDBUF(rs, 1) << 24 | (uint64_t)OLDBUF(rs, 2) << 16 | (uint64_t)OLDBUF(rs, 3) << 8 | OLDBUF(rs, 4)) : \
                     BE_N(rs) == 5 ? ((uint64_t)OLDBUF(rs, 1) << 32 | (uint64_t)OLDBUF(rs, 2) << 24 | (uint64_t)OLDBUF(rs, 3) << 16 | (uint64_t)OLDBUF(rs, 4) << 8 | OLDBUF(rs, 5)) : \
                     BE_N(rs) == 6 ? ((uint64_t)OLDBUF(rs, 1) << 40 | (uint64_t)OLDBUF(rs, 2) << 32 | (uint64_t)OLDBUF(rs, 3) << 24 | (uint64_t)OLDBUF(rs, 4) << 16 | (uint64_t)OLDBUF(rs, 5) << 8 | OLDBUF(rs, 6)) : \
                     BE_N(rs) == 7 ? ((uint64_t)OLDBUF(rs, 1) << 48 | (uint64_t)OLDBUF(rs, 2) << 40 | (uint64_t)OLDBUF(rs, 3) << 32 | (uint64_t)OLDBUF(rs, 4) << 24 | (uint64_t)OLDBUF(rs, 5) << 16 | (uint64_t)OLDBUF(rs, 6) << 8 | OLDBUF(rs, 7)) : \
                     ((uint64_t)OLDBUF(rs, 1) << 56 | (uint64_t)OLDBUF(rs, 2) << 48 | (uint64_t)OLDBUF(rs, 3) << 40 | (uint64_t)OLDBUF(rs, 4) << 32 | (uint64_t)OLDBUF(rs, 5) << 24 | (uint64_t)OLDBUF(rs, 6) << 16 | (uint64_t)OLDBUF(rs, 7) << 8 | OLDBUF(rs, 8))))
#define BE_OK(rs, T) (OLDREM(rs) >= 1 && BE_N(rs) <= sizeof(T) && OLDREM(rs) - 1 >= BE_N(rs))
int w_readSingleBEValue_i32_c(void* rs, int32_t* out)
RS_FRESH(rs)
__CPROVER_requires(__CPROVER_is_fresh(out, sizeof(*out)))
__CPROVER_assigns(R(rs)->m_Pos, *out)
RS_KEEPS(rs)
__CPROVER_ensures((RET != 0) == BE_OK(rs, int32_t))
__CPROVER_ensures(RET != 0 ==> ((uint32_t)*out == (uint32_t)BE_VAL(rs) && R(rs)->m_Pos == OLDPOS(rs) + 1 + BE_N(rs)));
int w_readSingleBEValue_i64_c(void* rs, int64_t* out)
RS_FRESH(rs)
__CPROVER_requires(__CPROVER_is_fresh(out, sizeof(*out)))
__CPROVER_assigns(R(rs)->m_Pos, *out)
RS_KEEPS(rs)
__CPROVER_ensures((RET != 0) == BE_OK(rs, int64_t))
__CPROVER_ensures(RET != 0 ==> ((uint64_t)*out == BE_VAL(rs) && R(rs)->m_Pos == OLDPOS(rs) + 1 + BE_N(rs)));

/* [n <= 4][n bytes BE = len as int32][len bytes]; a negative 32-bit length is never accepted */
#define VL_LEN(rs) ((int32_t)(uint32_t)BE_VAL(rs))
#define VL_HDR(rs) (1 + BE_N(rs))
int w_readVarLenValue_c(void* rs, uint64_t minLen, uint64_t maxLen, const uint8_t** out_ptr, size_t* out_size)
RS_FRESH(rs)
__CPROVER_requires(__CPROVER_is_fresh(out_ptr, sizeof(*out_ptr)) && __CPROVER_is_fresh(out_size, sizeof(*out_size)))
__CPROVER_assigns(R(rs)->m_Pos, *out_ptr, *out_size)
RS_KEEPS(rs)
__CPROVER_ensures((RET != 0) == (BE_OK(rs, int32_t) && VL_LEN(rs) >= 0 && minLen <= (uint64_t)VL_LEN(rs) && (uint64_t)VL_LEN(rs) <= maxLen &&
                                 OLDREM(rs) - VL_HDR(rs) >= (size_t)VL_LEN(rs)))
__CPROVER_ensures(RET != 0 ==> (*out_size == (size_t)VL_LEN(rs) && *out_ptr == R(rs)->m_Buffer + OLDPOS(rs) + VL_HDR(rs) &&
                                R(rs)->m_Pos == OLDPOS(rs) + VL_HDR(rs) + *out_size))
__CPROVER_ensures(RET != 0 ==> (minLen <= *out_size && *out_size <= maxLen && OLDPOS(rs) + VL_HDR(rs) + *out_size <= R(rs)->m_Size));

/* optional network byte: the first byte is the type id itself, or a network id followed by the type id */
int w_readNetworkByte_c(void* rs, uint8_t type, uint8_t* out3)
RS_FRESH(rs)
__CPROVER_requires(__CPROVER_is_fresh(out3, 3))
__CPROVER_assigns(R(rs)->m_Pos, __CPROVER_object_whole(out3))
RS_KEEPS(rs)
__CPROVER_ensures((RET != 0) == (OLDREM(rs) >= 1 && (OLDBUF(rs, 0) == type || OLDREM(rs) >= 2)))
__CPROVER_ensures((RET != 0 && OLDBUF(rs, 0) == type) ==> (out3[0] == 0 && out3[2] == type && R(rs)->m_Pos == OLDPOS(rs) + 1))
__CPROVER_ensures((RET != 0 && OLDBUF(rs, 0) != type) ==> (out3[0] == 1 && out3[1] == OLDBUF(rs, 0) && out3[2] == OLDBUF(rs, 1) && R(rs)->m_Pos == OLDPOS(rs) + 2));

/* ---------------------------------------------------------------- writers */
/* number of significant bytes of an int64 (1 for 0, 8 for negatives) */
#define TRIM_LEN(v) ((int64_t)(v) < 0 ? 8 : (uint64_t)(v) < (1UL << 8) ? 1 : (uint64_t)(v) < (1UL << 16) ? 2 : (uint64_t)(v) < (1UL << 24) ? 3 : \
                     (uint64_t)(v) < (1UL << 32) ? 4 : (uint64_t)(v) < (1UL << 40) ? 5 : (uint64_t)(v) < (1UL << 48) ? 6 : (uint64_t)(v) < (1UL << 56) ? 7 : 8)
#define BEBYTE(v, n, k) ((uint8_t)(((uint64_t)(v)) >> (8 * ((n)-1 - (k)))))
size_t w_writeSingleBEValue_c(int64_t v, uint8_t* out, size_t k)
__CPROVER_requires(__CPROVER_is_fresh(out, 9) && k < 8)
__CPROVER_assigns(__CPROVER_object_whole(out))
__CPROVER_ensures(RET == 1 + TRIM_LEN(v))
__CPROVER_ensures(out[0] == TRIM_LEN(v))
__CPROVER_ensures(k < TRIM_LEN(v) ==> out[1 + k] == BEBYTE(v, TRIM_LEN(v), k));

int w_rt_singleBE_i64_c(int64_t v, int64_t* back)
__CPROVER_requires(__CPROVER_is_fresh(back, sizeof(*back)))
__CPROVER_assigns(*back)
__CPROVER_ensures(RET != 0 && *back == v);
/* int32 instantiation: a negative value is written sign-extended on 8 bytes and is rejected by the 4-byte reader (documented asymmetry:
 * the library never writes negative lengths/counts); non-negative values round-trip */
int w_rt_singleBE_i32_c(int32_t v, int32_t* back)
__CPROVER_requires(__CPROVER_is_fresh(back, sizeof(*back)))
__CPROVER_assigns(*back)
__CPROVER_ensures(v >= 0 ==> (RET != 0 && *back == v))
__CPROVER_ensures(v < 0 ==> RET == 0);

size_t w_writeVarLenValue_c(const uint8_t* data, size_t len, uint8_t* out, size_t k)
__CPROVER_requires(len <= OUTMAX && __CPROVER_is_fresh(data, OUTMAX) && __CPROVER_is_fresh(out, OUTMAX + 9))
__CPROVER_assigns(__CPROVER_object_whole(out))
/* [t = trim_len(len)][t bytes: len big-endian][len bytes] */
__CPROVER_ensures(RET == 1 + TRIM_LEN(len) + len)
__CPROVER_ensures(out[0] == TRIM_LEN(len) && out[1] == BEBYTE(len, TRIM_LEN(len), 0))
__CPROVER_ensures(k < len ==> out[1 + TRIM_LEN(len) + k] == data[k]);

int w_rt_varLen_c(const uint8_t* data, size_t len, uint64_t minLen, uint64_t maxLen, size_t k)
__CPROVER_requires(len <= OUTMAX && __CPROVER_is_fresh(data, OUTMAX))
__CPROVER_assigns()
__CPROVER_ensures((RET != 0) == (minLen <= len && len <= maxLen));

size_t w_writeSingleByteLenValue_c(const uint8_t* data, size_t len, uint8_t* out, size_t k)
__CPROVER_requires(len <= OUTMAX && __CPROVER_is_fresh(data, OUTMAX) && __CPROVER_is_fresh(out, OUTMAX + 1))
__CPROVER_assigns(__CPROVER_object_whole(out))
__CPROVER_ensures(RET == 1 + len && out[0] == len)
__CPROVER_ensures(k < len ==> out[1 + k] == data[k]);

int w_rt_singleByteLen_c(const uint8_t* data, size_t len, uint64_t minLen, uint64_t maxLen, size_t k)
__CPROVER_requires(len <= OUTMAX && __CPROVER_is_fresh(data, OUTMAX))
__CPROVER_assigns()
__CPROVER_ensures((RET != 0) == (minLen <= len && len <= maxLen));

/* a network id equal to the type id cannot be told apart from "no network id" by the reader: excluded (the constants differ in practice) */
size_t w_networkByte_c(uint8_t hasValue, uint8_t value, uint8_t typeId, uint8_t* out2, uint8_t* back3, int* rok)
__CPROVER_requires(__CPROVER_is_fresh(out2, 2) && __CPROVER_is_fresh(back3, 3) && __CPROVER_is_fresh(rok, sizeof(int)))
__CPROVER_requires(hasValue == 0 || value != typeId)
__CPROVER_assigns(__CPROVER_object_whole(out2), __CPROVER_object_whole(back3), *rok)
__CPROVER_ensures(RET == (hasValue ? 2 : 1))
__CPROVER_ensures(hasValue ? (out2[0] == value && out2[1] == typeId) : out2[0] == typeId)
__CPROVER_ensures(*rok != 0 && back3[0] == (hasValue != 0) && (hasValue == 0 || back3[1] == value) && back3[2] == typeId);

/* readArrayOf: [count: single BE value read as int32][count items]. accepted => min <= count <= max (a negative count is never
 * accepted) and exactly count items were read; the allocation request (reserve) never exceeds max (ALLOC obligation in the model) */
extern size_t vstd_alloc_limit;
int w_readArrayOf_c(void* rs, size_t min, size_t max, size_t* out2)
RS_FRESH(rs)
__CPROVER_requires(__CPROVER_is_fresh(out2, 2 * sizeof(size_t)) && max <= 0x7fffffffUL)
__CPROVER_assigns(R(rs)->m_Pos, __CPROVER_object_whole(out2), vstd_alloc_limit)
RS_KEEPS(rs)
__CPROVER_ensures(RET != 0 ==> (BE_OK(rs, int32_t) && VL_LEN(rs) >= 0 && min <= (size_t)VL_LEN(rs) && (size_t)VL_LEN(rs) <= max))
__CPROVER_ensures(RET != 0 ==> (out2[0] == (size_t)VL_LEN(rs) && R(rs)->m_Pos == OLDPOS(rs) + VL_HDR(rs) + out2[0]))
__CPROVER_ensures((RET != 0 && out2[0] > 0) ==> out2[1] == OLDBUF(rs, VL_HDR(rs)));
