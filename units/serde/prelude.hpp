// C06/C11: serialization primitives of src/pop/serde.cpp + the templates of serde.hpp, over the REAL ReadStream and
// WriteStream (line-filtered real headers + whole real .cpp files, same rules as units readstream / poptx).
#include <cstdint>
#include <cstring>
#include <limits>
#include <string>
#include <vector>
#include <algorithm>
#include <veriblock/pop/consts.hpp>
#include <veriblock/pop/assert.hpp>
#include <veriblock/pop/validation_state.hpp>
#include "src/pop/read_stream.cpp"
#include <veriblock/pop/write_stream.hpp>
#include "src/pop/write_stream.cpp"
namespace altintegration {
// shells of entities/network_byte_pair.hpp (default member initialisers -> constructors)
struct VbkNetworkType {
  bool hasValue;
  uint8_t value;
  VbkNetworkType() : hasValue(false), value(0) {}
};
struct NetworkBytePair {
  VbkNetworkType networkType;
  uint8_t typeId;
  NetworkBytePair() : typeId(0) {}
};
bool readSingleByteLenValue(ReadStream& stream, Slice<const uint8_t>& out, ValidationState& state, uint64_t minLen, uint64_t maxLen);
#include "slices/checkRange.inc"
#include "slices/trimmedArray.inc"
#include "slices/readSingleBEValue.inc"
#include "slices/readVarLenValue.inc"
#include "slices/readSingleByteLenValue.inc"
#include "slices/writeSingleByteLenValue.inc"
#include "slices/writeSingleBEValue.inc"
#include "slices/writeVarLenValue.inc"
#include "slices/singleByteLenValueSize_slice.inc"
#include "slices/singleByteLenValueSize_size.inc"
#include "slices/singleBEValueSize.inc"
#include "slices/varLenValueSize_slice.inc"
#include "slices/varLenValueSize_size.inc"
#include "slices/readArrayOf.inc"
#include "slices/readNetworkByte.inc"
#include "slices/writeNetworkByte.inc"
#include "slices/networkByteSize.inc"
}  // namespace altintegration
