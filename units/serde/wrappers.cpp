#include "prelude.hpp"
using namespace altintegration;
#define REACH __CPROVER_assert(0, "REACH: harness end is reachable (expected to fail)")
#define CONSISTENT(ok, st) __CPROVER_assert((ok) == (st).IsValid(), "result false <=> ValidationState invalid")
#ifndef OUTMAX
#define OUTMAX 48
#endif
#ifdef VSTD_ALLOC_LIMIT_DYN
extern "C" { size_t vstd_alloc_limit; }
#endif
static bool read_item_u8(ReadStream& stream, uint8_t& out, ValidationState& state) { return stream.readBE(out, state); }
extern "C" {
size_t nondet_size_t();
void* nondet_ptr();
int nondet_int();
long nondet_long();
uint8_t nondet_u8();
extern const size_t RS_LAYOUT[5];
void check_layout() {
  __CPROVER_assert(sizeof(ReadStream) == RS_LAYOUT[0], "LAYOUT sizeof(ReadStream) equals the C mirror");
  ReadStream* z = (ReadStream*)0;
  __CPROVER_assert((size_t)&z->m_version == RS_LAYOUT[1] && (size_t)&z->m_Pos == RS_LAYOUT[2] &&
                   (size_t)&z->m_Buffer == RS_LAYOUT[3] && (size_t)&z->m_Size == RS_LAYOUT[4],
                   "LAYOUT offsets of ReadStream members equal the C mirror");
}

int w_checkRange(uint64_t num, uint64_t min, uint64_t max) {
  ValidationState st;
  bool ok = checkRange(num, min, max, st);
  CONSISTENT(ok, st);
  return ok;
}
void h_checkRange() { w_checkRange(nondet_size_t(), nondet_size_t(), nondet_size_t()); REACH; }

// ---------------------------------------------------------------- readers (C06)
int w_readSingleByteLenValue(void* rs, uint64_t minLen, uint64_t maxLen, const uint8_t** out_ptr, size_t* out_size) {
  ValidationState st;
  Slice<const uint8_t> s;
  bool ok = readSingleByteLenValue(*(ReadStream*)rs, s, st, minLen, maxLen);
  CONSISTENT(ok, st);
  *out_ptr = s.data();
  *out_size = s.size();
  return ok;
}
void h_readSingleByteLenValue() { check_layout(); w_readSingleByteLenValue(nondet_ptr(), nondet_size_t(), nondet_size_t(), (const uint8_t**)nondet_ptr(), (size_t*)nondet_ptr()); REACH; }

int w_readVarLenValue(void* rs, uint64_t minLen, uint64_t maxLen, const uint8_t** out_ptr, size_t* out_size) {
  ValidationState st;
  Slice<const uint8_t> s;
  bool ok = readVarLenValue(*(ReadStream*)rs, s, st, minLen, maxLen);
  CONSISTENT(ok, st);
  *out_ptr = s.data();
  *out_size = s.size();
  return ok;
}
void h_readVarLenValue() { check_layout(); w_readVarLenValue(nondet_ptr(), nondet_size_t(), nondet_size_t(), (const uint8_t**)nondet_ptr(), (size_t*)nondet_ptr()); REACH; }

int w_readSingleBEValue_i32(void* rs, int32_t* out) {
  ValidationState st;
  bool ok = readSingleBEValue<int32_t>(*(ReadStream*)rs, *out, st);
  CONSISTENT(ok, st);
  return ok;
}
void h_readSingleBEValue_i32() { check_layout(); w_readSingleBEValue_i32(nondet_ptr(), (int32_t*)nondet_ptr()); REACH; }
int w_readSingleBEValue_i64(void* rs, int64_t* out) {
  ValidationState st;
  bool ok = readSingleBEValue<int64_t>(*(ReadStream*)rs, *out, st);
  CONSISTENT(ok, st);
  return ok;
}
void h_readSingleBEValue_i64() { check_layout(); w_readSingleBEValue_i64(nondet_ptr(), (int64_t*)nondet_ptr()); REACH; }

int w_readNetworkByte(void* rs, uint8_t type, uint8_t* out3) {
  ValidationState st;
  NetworkBytePair p;
  bool ok = readNetworkByte(*(ReadStream*)rs, (TxType)type, p, st);
  CONSISTENT(ok, st);
  out3[0] = p.networkType.hasValue;
  out3[1] = p.networkType.value;
  out3[2] = p.typeId;
  return ok;
}
void h_readNetworkByte() { check_layout(); w_readNetworkByte(nondet_ptr(), nondet_u8(), (uint8_t*)nondet_ptr()); REACH; }

// ---------------------------------------------------------------- writers, sizes (C11)
static size_t emit(const WriteStream& w, uint8_t* out, size_t cap) {
  const std::vector<uint8_t>& d = w.data();
  __CPROVER_assert(d.size() <= cap, "HARNESS: output fits the harness buffer");
  for (size_t i = 0; i < d.size() && i < cap; i++) out[i] = d[i];
  return d.size();
}
// out[0..9): [len][BE bytes]; returns number of bytes written; size estimate must agree
size_t w_writeSingleBEValue(int64_t v, uint8_t* out, size_t k) {
  WriteStream w;
  writeSingleBEValue(w, v);
  __CPROVER_assert(singleBEValueSize(v) == w.data().size(), "singleBEValueSize(v) == bytes written by writeSingleBEValue(v)");
  return emit(w, out, 9);
}
void h_writeSingleBEValue() { w_writeSingleBEValue(nondet_long(), (uint8_t*)nondet_ptr(), nondet_size_t()); REACH; }

// decode(encode(v)) for the two instantiations used by the library
int w_rt_singleBE_i64(int64_t v, int64_t* back) {
  WriteStream w;
  writeSingleBEValue(w, v);
  ReadStream r(w.data());
  ValidationState st;
  bool ok = readSingleBEValue<int64_t>(r, *back, st);
  __CPROVER_assert(!ok || r.remaining() == 0, "decoder consumes exactly the encoding");
  return ok;
}
void h_rt_singleBE_i64() { w_rt_singleBE_i64(nondet_long(), (int64_t*)nondet_ptr()); REACH; }
int w_rt_singleBE_i32(int32_t v, int32_t* back) {
  WriteStream w;
  writeSingleBEValue(w, v);
  ReadStream r(w.data());
  ValidationState st;
  bool ok = readSingleBEValue<int32_t>(r, *back, st);
  __CPROVER_assert(!ok || r.remaining() == 0, "decoder consumes exactly the encoding");
  return ok;
}
void h_rt_singleBE_i32() { w_rt_singleBE_i32(nondet_int(), (int32_t*)nondet_ptr()); REACH; }

// var-len value: [1+n bytes length prefix][len bytes]; bounded by the harness buffer
size_t w_writeVarLenValue(const uint8_t* data, size_t len, uint8_t* out, size_t k) {
  WriteStream w;
  writeVarLenValue(w, Slice<const uint8_t>(data, len));
  __CPROVER_assert(varLenValueSize(len) == w.data().size(), "varLenValueSize(n) == bytes written by writeVarLenValue");
  __CPROVER_assert(varLenValueSize(Slice<const uint8_t>(data, len)) == w.data().size(), "varLenValueSize(slice) == bytes written by writeVarLenValue");
  return emit(w, out, OUTMAX + 9);
}
void h_writeVarLenValue() { w_writeVarLenValue((const uint8_t*)nondet_ptr(), nondet_size_t(), (uint8_t*)nondet_ptr(), nondet_size_t()); REACH; }
int w_rt_varLen(const uint8_t* data, size_t len, uint64_t minLen, uint64_t maxLen, size_t k) {
  WriteStream w;
  writeVarLenValue(w, Slice<const uint8_t>(data, len));
  ReadStream r(w.data());
  ValidationState st;
  Slice<const uint8_t> s;
  bool ok = readVarLenValue(r, s, st, minLen, maxLen);
  if (ok) {
    __CPROVER_assert(s.size() == len, "round trip keeps the length");
    __CPROVER_assert(k >= len || s[k] == data[k], "round trip keeps every byte");
    __CPROVER_assert(r.remaining() == 0, "decoder consumes exactly the encoding");
  }
  return ok;
}
void h_rt_varLen() { w_rt_varLen((const uint8_t*)nondet_ptr(), nondet_size_t(), nondet_size_t(), nondet_size_t(), nondet_size_t()); REACH; }

size_t w_writeSingleByteLenValue(const uint8_t* data, size_t len, uint8_t* out, size_t k) {
  WriteStream w;
  writeSingleByteLenValue(w, Slice<const uint8_t>(data, len));
  __CPROVER_assert(singleByteLenValueSize(len) == w.data().size(), "singleByteLenValueSize(n) == bytes written");
  __CPROVER_assert(singleByteLenValueSize(Slice<const uint8_t>(data, len)) == w.data().size(), "singleByteLenValueSize(slice) == bytes written");
  return emit(w, out, OUTMAX + 1);
}
void h_writeSingleByteLenValue() { w_writeSingleByteLenValue((const uint8_t*)nondet_ptr(), nondet_size_t(), (uint8_t*)nondet_ptr(), nondet_size_t()); REACH; }
int w_rt_singleByteLen(const uint8_t* data, size_t len, uint64_t minLen, uint64_t maxLen, size_t k) {
  WriteStream w;
  writeSingleByteLenValue(w, Slice<const uint8_t>(data, len));
  ReadStream r(w.data());
  ValidationState st;
  Slice<const uint8_t> s;
  bool ok = readSingleByteLenValue(r, s, st, minLen, maxLen);
  if (ok) {
    __CPROVER_assert(s.size() == len, "round trip keeps the length");
    __CPROVER_assert(k >= len || s[k] == data[k], "round trip keeps every byte");
    __CPROVER_assert(r.remaining() == 0, "decoder consumes exactly the encoding");
  }
  return ok;
}
void h_rt_singleByteLen() { w_rt_singleByteLen((const uint8_t*)nondet_ptr(), nondet_size_t(), nondet_size_t(), nondet_size_t(), nondet_size_t()); REACH; }

// network byte pair: write, size, read back
size_t w_networkByte(uint8_t hasValue, uint8_t value, uint8_t typeId, uint8_t* out2, uint8_t* back3, int* rok) {
  NetworkBytePair p;
  p.networkType.hasValue = hasValue != 0;
  p.networkType.value = value;
  p.typeId = typeId;
  WriteStream w;
  writeNetworkByte(w, p);
  __CPROVER_assert(networkByteSize(p) == w.data().size(), "networkByteSize(p) == bytes written by writeNetworkByte(p)");
  size_t n = emit(w, out2, 2);
  ReadStream r(w.data());
  ValidationState st;
  NetworkBytePair q;
  // the reader is told which type byte to expect
  *rok = readNetworkByte(r, (TxType)typeId, q, st);
  back3[0] = q.networkType.hasValue;
  back3[1] = q.networkType.value;
  back3[2] = q.typeId;
  return n;
}
void h_networkByte() { w_networkByte(nondet_u8(), nondet_u8(), nondet_u8(), (uint8_t*)nondet_ptr(), (uint8_t*)nondet_ptr(), (int*)nondet_ptr()); REACH; }

#ifdef VSTD_ALLOC_LIMIT_DYN
// array of one-byte items: [count: single BE int32][count items]; out2 = {number of items read, first item}
int w_readArrayOf(void* rs, size_t min, size_t max, size_t* out2) {
  std::vector<uint8_t> v;
  ValidationState st;
  vstd_alloc_limit = max;   // C06: nothing above the declared maximum is ever requested from the allocator
  bool ok = readArrayOf<uint8_t>(*(ReadStream*)rs, v, st, min, max, read_item_u8);
  CONSISTENT(ok, st);
  out2[0] = v.size();
  out2[1] = v.size() > 0 ? v.data()[0] : 0;
  return ok;
}
void h_readArrayOf() { check_layout(); w_readArrayOf(nondet_ptr(), nondet_size_t(), nondet_size_t(), (size_t*)nondet_ptr()); REACH; }
#endif
}
