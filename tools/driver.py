#!/usr/bin/env python3
"""Driver: /repo working tree -> shadow tree + slices -> goto-cc -> dfcc contract instrumentation -> cbmc
-> obligations -> evidence / VIOLATION / KNOWN-FINDING / UNDECIDED.   See /verif/DESIGN.md sections 3-4.

usage: driver.py <property-id>|all [--tier quick|thorough] [--unit U] [--harness REGEX] [--keep]
                 [--record-floors] [--replay PATH] [--jobs N] [--canaries]
exit 0: every obligation discharged (KNOWN-FINDING lines for listed findings)
exit 1: VIOLATION property=<id> replay=<path>
exit 2: UNDECIDED (machinery could not decide) - never a VIOLATION line
"""
import argparse
import concurrent.futures as cf
import glob
import json
import os
import re
import resource
import shutil
import subprocess
import sys
import threading
import time

HERE = os.path.dirname(os.path.abspath(__file__))
VERIF = os.path.dirname(HERE)
REPO = os.environ.get('VERIF_REPO', '/repo')
sys.path.insert(0, HERE)
import extract  # noqa: E402

MEM_LIMIT = int(os.environ.get('VERIF_MEM_GB', '10')) * (1 << 30)
DEFAULT_FLAGS = ['--bounds-check', '--pointer-check', '--div-by-zero-check', '--signed-overflow-check']
PROVED_LABELS = ('proved-modular', 'proved-complete-unwinding')
PREPARE_ONLY = False


class Undecided(Exception):
    pass


def log(*a):
    print(*a, file=sys.stderr, flush=True)


def run(cmd, cwd, timeout, out=None):
    def lim():
        resource.setrlimit(resource.RLIMIT_AS, (MEM_LIMIT, MEM_LIMIT))
        os.setsid()
    t0 = time.time()
    p = subprocess.Popen(cmd, cwd=cwd, stdout=subprocess.PIPE if out is None else open(out, 'wb'),
                         stderr=subprocess.STDOUT if out is None else open(out + '.err', 'wb'),
                         preexec_fn=lim)
    try:
        so, _ = p.communicate(timeout=timeout)
        to = False
    except subprocess.TimeoutExpired:
        try:
            os.killpg(p.pid, 9)
        except Exception:
            p.kill()
        so, _ = p.communicate()
        to = True
    return p.returncode, (so.decode('utf8', 'replace') if so else ''), time.time() - t0, to


# ------------------------------------------------------------------------------------------ units

def load_units():
    units = {}
    for uj in sorted(glob.glob(os.path.join(VERIF, 'units', '*', 'unit.json'))):
        with open(uj) as f:
            u = json.load(f)
        u['dir'] = os.path.dirname(uj)
        units[u['unit']] = u
    return units


def expand_harnesses(unit, tier):
    """expand 'for' matrices; keep harnesses whose tier is enabled"""
    out = []
    for h in unit['harnesses']:
        htier = h.get('tier', 'quick')
        if htier == 'thorough' and tier != 'thorough':
            continue
        if htier == 'quick-only' and tier != 'quick':
            continue
        mats = h.get('for')
        if not mats:
            hh = dict(h)
            hh.setdefault('defs', {})
            out.append(hh)
            continue
        combos = [{}]
        for k, vals in mats.items():
            if isinstance(vals, dict):
                vals = vals['thorough'] if tier == 'thorough' else vals['quick']
            combos = [dict(c, **{k: v}) for c in combos for v in vals]
        for c in combos:
            hh = dict(h)
            hh['defs'] = dict(h.get('defs', {}), **c)
            hh['name'] = h['name'] + ''.join('_%s%s' % (k.lower(), v) for k, v in c.items())
            out.append(hh)
    for h in out:
        h['unit'] = unit['unit']
    return out


# ------------------------------------------------------------------------------------ preparation

CONST_RX = re.compile(r'constexpr const auto (\w+) =\s*([^;]+);', re.S)


def gen_consts(src):
    """typed copy of consts.hpp (CBMC mis-types 'auto' as int); rule is fixed and checked by g++ static_asserts"""
    names = []

    def rep(m):
        name, expr = m.group(1), m.group(2)
        if 'sizeof' in expr:
            ty = 'unsigned long'
        elif re.search(r'\dU\s*$', expr.strip()):
            ty = 'unsigned int'
        elif expr.strip().startswith('"'):
            ty = 'char* const'
        else:
            ty = 'int'
        names.append((name, ty))
        return 'const %s %s = %s;' % (ty.replace('char* const', 'char* const'), name, expr) if ty != 'char* const' \
            else 'const char* const %s = %s;' % (name, expr)
    text = CONST_RX.sub(rep, src)
    text = text.replace('constexpr const uint32_t', 'const uint32_t')
    text = text.replace('#include <vector>', '')
    return text, names


def prepare_unit(unit, scratch, mutate=None):
    """build shadow tree and slices for a unit; returns info dict (fired rules, functions, hashes)"""
    ud = os.path.join(scratch, unit['unit'])
    sh = os.path.join(ud, 'shadow')
    os.makedirs(sh, exist_ok=True)
    os.makedirs(os.path.join(ud, 'slices'), exist_ok=True)
    info = {'fired': [], 'sources': {}, 'functions': [], 'dropped': []}

    def src_text(rel):
        p = os.path.join(REPO, rel)
        if not os.path.exists(p):
            raise Undecided('source file missing: %s' % rel)
        info['sources'][rel] = extract.sha256_file(p)
        with open(p) as f:
            return f.read()

    # stubs that real headers reach through quoted sibling includes must sit in the shadow tree too
    shutil.copytree(os.path.join(VERIF, 'stubs', 'veriblock'), os.path.join(sh, 'veriblock'), dirs_exist_ok=True)
    # generated typed consts.hpp
    if unit.get('gen_consts', True):
        t, names = gen_consts(src_text('include/veriblock/pop/consts.hpp'))
        d = os.path.join(sh, 'veriblock/pop')
        os.makedirs(d, exist_ok=True)
        with open(os.path.join(d, 'consts.hpp'), 'w') as f:
            f.write(t)
        info['consts'] = names
    shadow = list(unit.get('shadow', []))
    for other in unit.get('shadow_from', []):   # reuse the (real header -> shadow tree) rules of another unit
        with open(os.path.join(VERIF, 'units', other, 'unit.json')) as f:
            shadow += [e for e in json.load(f).get('shadow', []) if e['dst'] not in [x['dst'] for x in shadow]]
    for ent in shadow:
        text = src_text(ent['src'])
        try:
            text, fired = extract.apply_rewrites(text, ent.get('rewrites', []), 'in ' + ent['src'])
        except extract.ExtractError as e:
            raise Undecided(str(e))
        if mutate and mutate.get('file') == ent['src']:
            text = apply_mutation(text, mutate)
        try:
            for et in ent.get('expand_member_templates', []):
                text = extract.expand_member_template(text, et['name'], et['types'], 'in ' + ent['src'])
                fired.append({'rule': 'member template %s instantiated textually' % et['name'], 'replacement': ','.join(et['types']) or '(deleted)', 'fired': 1})
        except extract.ExtractError as e:
            raise Undecided(str(e))
        info['fired'] += [dict(f, where=ent['src']) for f in fired]
        dst = os.path.join(sh, ent['dst'])
        os.makedirs(os.path.dirname(dst), exist_ok=True)
        with open(dst, 'w') as f:
            f.write(text)
    slices = []
    for other in unit.get('slices_from', []):   # reuse the slice list (and rules) of another unit whose prelude this unit includes
        with open(os.path.join(VERIF, 'units', other, 'unit.json')) as f:
            slices += json.load(f).get('slices', [])
    slices += [s for s in unit.get('slices', []) if s['id'] not in [x['id'] for x in slices]]
    for sl in slices:
        text = src_text(sl['file'])
        try:
            if sl.get('kind') == 'lines':
                body, l0, l1 = extract.slice_lines(text, sl['start'], sl.get('last'), 'in ' + sl['file'])
            elif sl.get('optional') and not re.search(sl['start'], text, re.M):
                # a helper that exists only in some versions of the source: absent -> empty slice (its callers then fail to
                # compile or verify on their own merits)
                body, l0, l1 = '// (optional slice %s: not present in this version of %s)' % (sl['id'], sl['file']), 0, 0
                sl = dict(sl, rewrites=[])
            else:
                body, l0, l1 = extract.slice_definition(text, sl['start'], sl.get('occurrence', 0), 'in ' + sl['file'])
            if mutate and mutate.get('slice') == sl['id']:
                body = apply_mutation(body, mutate)
            body, fired = extract.apply_rewrites(body, sl.get('rewrites', []) + unit.get('rewrites', []),
                                                 'in slice ' + sl['id'])
        except extract.ExtractError as e:
            raise Undecided('slice %s: %s' % (sl['id'], e))
        info['fired'] += [dict(f, where='slice ' + sl['id']) for f in fired if f['fired']]
        info['functions'].append({'slice': sl['id'], 'file': sl['file'], 'lines': [l0, l1]})
        with open(os.path.join(ud, 'slices', sl['id'] + '.inc'), 'w') as f:
            f.write('// sliced from %s:%d-%d\n' % (sl['file'], l0, l1) + body + '\n')
    for fn in unit.get('functions', []):
        text = src_text(fn['file'])
        try:
            _, l0, l1 = extract.slice_definition(text, fn['regex'], fn.get('occurrence', 0), 'in ' + fn['file'])
        except extract.ExtractError as e:
            raise Undecided('function %s: %s' % (fn['name'], e))
        info['functions'].append({'function': fn['name'], 'file': fn['file'], 'lines': [l0, l1]})
    return info


def apply_mutation(text, mutate):
    new, n = re.subn(mutate['regex'], mutate['replacement'], text, flags=re.M)
    if n != mutate.get('count', 1):
        raise Undecided('canary %s fired %d times' % (mutate.get('name'), n))
    return new


_compile_lock = threading.Lock()
_compiled = {}


def compile_unit(unit, scratch, defs):
    """goto-cc the C++ wrappers (+slices) and the C contracts for one set of -D; memoised"""
    key = (unit['unit'], tuple(sorted(defs.items())))
    with _compile_lock:
        ev = _compiled.get(key)
        if ev is None:
            ev = {'event': threading.Event(), 'result': None}
            _compiled[key] = ev
            owner = True
        else:
            owner = False
    if not owner:
        ev['event'].wait()
        if isinstance(ev['result'], Exception):
            raise ev['result']
        return ev['result']
    try:
        ud = os.path.join(scratch, unit['unit'])
        tag = '_'.join('%s%s' % kv for kv in sorted(defs.items())) or 'nodefs'
        od = os.path.join(ud, 'obj_' + tag)
        os.makedirs(od, exist_ok=True)
        dflags = ['-D%s=%s' % kv for kv in sorted(defs.items())] + ['-DVBK_VERIF_CONTRACTS=1']
        inc = ['-I', os.path.join(ud, 'shadow'), '-I', ud, '-I', unit['dir'],
               '-I', os.path.join(VERIF, 'stubs'), '-I', os.path.join(VERIF, 'stubs', 'std')]
        objs = []
        for i, src in enumerate(unit.get('cxx', ['wrappers.cpp'])):
            o = os.path.join(od, 'cpp%d.gb' % i)
            rc, so, dt, to = run(['goto-cc', '-std=c++11', '-nostdinc'] + inc + dflags +
                                 ['-c', os.path.join(unit['dir'], src), '-o', o], ud, 300)
            if rc != 0 or to:
                raise Undecided('goto-cc (C++) failed for %s [%s]:\n%s' % (unit['unit'], tag, so[-3000:]))
            objs.append(o)
        for i, src in enumerate(unit.get('c', ['contracts.c'])):
            o = os.path.join(od, 'c%d.gb' % i)
            rc, so, dt, to = run(['goto-cc', '-I', unit['dir'], '-I', ud, '-I', os.path.join(VERIF, 'stubs', 'c')] + dflags + ['-c', os.path.join(unit['dir'], src), '-o', o], ud, 300)
            if rc != 0 or to:
                raise Undecided('goto-cc (C) failed for %s [%s]:\n%s' % (unit['unit'], tag, so[-3000:]))
            objs.append(o)
        ev['result'] = (od, objs)
    except Exception as e:  # noqa
        ev['result'] = e
        ev['event'].set()
        raise
    ev['event'].set()
    return ev['result']


# ------------------------------------------------------------------------------------- one harness

def classify(prop):
    name, desc = prop.get('property', ''), prop.get('description', '')
    if desc.startswith('REACH'):
        return 'reach'
    if desc.startswith('VBK_ASSERT'):
        return 'vbk_assert'
    if desc.startswith('MODEL:'):
        return 'model'
    if '.unwind.' in name or 'unwinding assertion' in desc:
        return 'unwind'
    if 'builtin-library' in (prop.get('sourceLocation', {}).get('file', '')) or name.startswith('__CPROVER_contracts'):
        return 'dfcc_library'
    if '.postcondition.' in name or 'ensures clause' in desc:
        return 'postcondition'
    if '.precondition.' in name or 'requires clause' in desc:
        return 'precondition'
    if '.assigns.' in name or 'is assignable' in desc:
        return 'frame'
    if 'loop_invariant' in name or 'loop invariant' in desc:
        return 'loop_invariant'
    if 'loop_decreases' in name or 'decreases clause' in desc or 'loop_step_unwinding' in name:
        return 'loop_variant'
    if 'loop_assigns' in name:
        return 'frame'
    if '.assertion.' in name:
        return 'assertion'
    if re.search(r'\.(overflow|pointer_dereference|array_bounds|division-by-zero|pointer_arithmetic|undefined-shift|'
                 r'bit_count|pointer|NaN|enum-range-check|pointer_primitives|memory-leak)\.', name):
        return 'safety'
    return 'dfcc_structural'


def resolve_loops(unit, h, od, lgb):
    """instantiate loops.json: map base names of locals to mangled symbols found in the symbol table"""
    with open(os.path.join(unit['dir'], h['loops'])) as f:
        spec = json.load(f)
    rc, so, dt, to = run(['goto-instrument', '--show-symbol-table', lgb], od, 120)
    syms = re.findall(r'^Symbol\.*: (\S+)', so, re.M)
    out = {'functions': []}
    for fn in spec['functions']:
        fname = fn['function']  # regex on mangled name
        cands = sorted(set(s for s in syms if re.fullmatch(fname, s)))
        if len(cands) != 1:
            raise Undecided('loop contract: function regex %r matches %r' % (fname, cands))
        mf = cands[0]
        ent = {}
        for loop in fn['loops']:
            smap = []
            for base in loop.get('locals', []):
                c2 = sorted(set(s for s in syms if s.startswith(mf + '::') and s.split('::')[-1] == base))
                if len(c2) != 1:
                    raise Undecided('loop contract: local %r in %s resolves to %r' % (base, mf, c2))
                smap.append('%s,%s' % (base, c2[0]))
            for base, full in loop.get('symbols', {}).items():
                smap.append('%s,%s' % (base, full))
            lj = {'invariants': loop['invariant'], 'symbol_map': ';'.join(smap)}
            if 'decreases' in loop:
                lj['decreases'] = loop['decreases']
            if 'assigns' in loop:
                lj['assigns'] = loop['assigns']
            ent['loop%d' % loop['index']] = lj
        # goto-instrument treats the key as an ECMAScript regex: escape the mangled name
        mf_rx = re.sub(r'([\\^$.|?*+()\[\]{}])', r'\\\1', mf)
        out['functions'].append({mf_rx: [{'loop_id': k.replace('loop', ''), **v} for k, v in ent.items()]})
    # goto-instrument's format: {"sources":[...], "functions":[{"f":[{"loop_id":"0","invariants":"..","decreases":"..","symbol_map":".."}]}]}
    out['sources'] = spec.get('sources', [])
    p = os.path.join(od, h['name'] + '.loops.json')
    with open(p, 'w') as f:
        json.dump(out, f, indent=1)
    return p


def run_harness(unit, h, scratch):
    res = {'unit': unit['unit'], 'harness': h['name'], 'label': h.get('label', 'proved-modular'),
           'props': h.get('props', unit.get('properties', [])), 'status': 'undecided', 'reason': '',
           'obligations': [], 'solver_s': 0.0, 'backend': None, 'cmd': '', 'functions': h.get('functions', []),
           'bound': h.get('bound')}
    try:
        od, objs = compile_unit(unit, scratch, h['defs'])
        hd = os.path.join(od, h['name'])
        os.makedirs(hd, exist_ok=True)
        entry = h['entry']
        lgb = os.path.join(hd, 'l.gb')
        rc, so, dt, to = run(['goto-cc', '--function', entry] + objs + ['-o', lgb], hd, 300)
        if rc != 0 or to:
            raise Undecided('link failed: ' + so[-2000:])
        if PREPARE_ONLY:
            raise Undecided('prepared only: ' + lgb)
        cur = lgb
        if h.get('pre_unwind'):
            # loops nested inside a loop that gets a loop contract must be unwound before the instrumentation
            rc, so, dt, to = run(['cbmc', '--show-loops', lgb], hd, 120)
            names = re.findall(r'^Loop (.*):$', so, re.M)
            us = []
            for pu in h['pre_unwind']:
                c = [n for n in names if re.fullmatch(pu['loop'], n)]
                if len(c) != 1:
                    raise Undecided('pre_unwind: loop regex %r matches %r' % (pu['loop'], c))
                us.append('%s:%d' % (c[0], pu['bound']))
            if h.get('pre_unwind_rest'):
                # every loop that neither gets a loop contract nor an explicit bound is unwound too (with unwinding assertions):
                # dfcc raises spurious 'loop counter not assignable' obligations for loops it skips while --apply-loop-contracts is on
                keep = [re.compile(k) for k in h['pre_unwind_rest'].get('keep', [])]
                done = set(u.rsplit(':', 1)[0] for u in us)
                for n in names:
                    if n in done or any(k.fullmatch(n) for k in keep):
                        continue
                    us.append('%s:%d' % (n, h['pre_unwind_rest']['bound']))
            ugb = os.path.join(hd, 'u.gb')
            rc, so, dt, to = run(['goto-instrument', '--unwindset', ','.join(us), '--unwinding-assertions', lgb, ugb], hd, 300)
            if rc != 0 or to or not os.path.exists(ugb):
                raise Undecided('goto-instrument --unwindset failed: ' + so[-1500:])
            lgb = ugb
            cur = ugb
        if h.get('add_library'):
            # link CBMC's own library bodies (e.g. __new, emitted by the C++ front end for `new T(...)`) before the
            # contract instrumentation; without it dfcc treats them as undefined functions (assert false; assume false)
            agb = os.path.join(hd, 'a.gb')
            rc, so, dt, to = run(['goto-instrument', '--add-library', lgb, agb], hd, 300)
            if rc != 0 or to or not os.path.exists(agb):
                raise Undecided('goto-instrument --add-library failed: ' + so[-1500:])
            lgb = agb
            cur = agb
        if h.get('enforce') or h.get('loops') or h.get('dfcc', False):
            igb = os.path.join(hd, 'i.gb')
            cmd = ['goto-instrument', '--dfcc', entry]
            for e in h.get('enforce', []):
                cmd += ['--enforce-contract', e]
            for e in h.get('replace', []):
                cmd += ['--replace-call-with-contract', e]
            if h.get('loops'):
                cmd += ['--loop-contracts-file', resolve_loops(unit, h, hd, lgb), '--apply-loop-contracts']
            if h.get('loops_no_side_effect'):
                cmd += ['--loop-contracts-no-unwind']
            cmd += [lgb, igb]
            rc, so, dt, to = run(cmd, hd, 600)
            if rc != 0 or to or not os.path.exists(igb):
                raise Undecided('goto-instrument --dfcc failed: ' + so[-3000:])
            cur = igb
        flags = list(h.get('flags', DEFAULT_FLAGS))
        if h.get('unwind'):
            flags += ['--unwind', str(h['unwind']), '--unwinding-assertions']
        for us in h.get('unwindset', []):
            flags += ['--unwindset', us]
        if h.get('object_bits'):
            flags += ['--object-bits', str(h['object_bits'])]
        backends = h.get('backends', ['sat'])
        last_reason = ''
        for be in backends:
            bflags = {'sat': [], 'cadical': ['--sat-solver', 'cadical'], 'kissat': ['--external-sat-solver', 'kissat'],
                      'cvc5': ['--cvc5'], 'z3': ['--z3']}[be]
            outp = os.path.join(hd, 'cbmc.%s.json' % be)
            cmd = ['cbmc', cur] + flags + bflags + ['--json-ui', '--trace', '--verbosity', '8']
            res['cmd'] = ' '.join(['goto-instrument ...' if cur != lgb else ''] + ['cbmc'] + flags + bflags).strip()
            rc, so, dt, to = run(cmd, hd, h.get('timeout', 300), out=outp)
            res['solver_s'] += dt
            if to:
                last_reason = 'solver timeout after %ds on back end %s' % (h.get('timeout', 300), be)
                continue
            try:
                with open(outp) as f:
                    js = json.load(f)
            except Exception as e:
                last_reason = 'cbmc output unparsable on %s (rc=%s): %s' % (be, rc, e)
                continue
            results = None
            msgs = []
            for item in js:
                if 'result' in item:
                    results = item['result']
                if 'messageText' in item:
                    msgs.append(item['messageText'])
            if results is None:
                last_reason = 'cbmc produced no result on %s (rc=%s): %s' % (be, rc, ' | '.join(msgs[-5:])[-1500:])
                continue
            ign = [m for m in msgs if 'ignoring' in m]
            if ign:
                last_reason = 'back end %s dropped a construct: %s' % (be, ign[0][:200])
                continue
            res['backend'] = be
            res['obligations'] = [{'name': r.get('property'), 'desc': r.get('description'), 'status': r.get('status'),
                                   'class': classify(r), 'loc': r.get('sourceLocation', {}),
                                   'trace': r.get('trace')} for r in results]
            break
        else:
            raise Undecided(last_reason)
        judge(res, h)
    except Undecided as e:
        res['status'] = 'undecided'
        res['reason'] = str(e)
    except Exception as e:  # machinery bug -> undecided, never a violation
        res['status'] = 'undecided'
        res['reason'] = 'driver exception: %r' % (e,)
    return res


def judge(res, h):
    obs = res['obligations']
    err = [o for o in obs if o['status'] not in ('SUCCESS', 'FAILURE')]
    hard_fail = [o for o in obs if o['status'] == 'FAILURE' and o['class'] not in ('reach', 'unwind', 'model')]
    if err and hard_fail:
        # cbmc leaves obligations UNKNOWN when it stops refining after failures; the failures it did find carry traces and stand
        obs[:] = [o for o in obs if o['status'] in ('SUCCESS', 'FAILURE')]
        res['obligations'] = obs
    elif err:
        raise Undecided('cbmc reported status %s for %d obligations (solver gave up: memory limit or internal error), first: %s'
                        % (err[0]['status'], len(err), err[0]['name']))
    unw_early = [o for o in obs if o['class'] == 'unwind' and o['status'] == 'FAILURE']
    if unw_early and not hard_fail:
        raise Undecided('unwinding assertion failed (bound too small): ' + (unw_early[0]['name'] or ''))
    reach = [o for o in obs if o['class'] == 'reach']
    if not reach:
        raise Undecided('no REACH obligation in harness (vacuity guard missing)')
    dead = [o for o in reach if o['status'] != 'FAILURE']
    if dead:
        raise Undecided('vacuous: REACH point(s) not reachable: ' + ', '.join(o['desc'] for o in dead))
    real = [o for o in obs if o['class'] != 'reach']
    # a failed obligation with a trace is a real execution whatever happens to loop bounds / model capacities elsewhere;
    # failed unwinding assertions and MODEL bounds alone mean "could not decide" (they only guard the soundness of SUCCESS)
    # documented tool artifacts: (name regex, description regex) pairs a harness may declare; matching failed obligations are
    # set aside (listed in the evidence as 'set_aside') instead of being judged. Only used for dfcc's spurious
    # "loop counter is not assignable" on loops it skips while --apply-loop-contracts is on (locals are always assignable).
    aside = []
    for ig in h.get('set_aside', []):
        for o in real:
            if o['status'] != 'SUCCESS' and re.fullmatch(ig['name'], o['name'] or '') and re.fullmatch(ig['desc'], o['desc'] or ''):
                aside.append(o)
    res['set_aside'] = [{'name': o['name'], 'desc': o['desc']} for o in aside]
    real = [o for o in real if o not in aside]
    hard = [o for o in real if o['status'] != 'SUCCESS' and o['class'] not in ('unwind', 'model')]
    soft = [o for o in real if o['status'] != 'SUCCESS' and o['class'] in ('unwind', 'model')]
    if h.get('model_bound_ok'):
        # the harness is a declared bounded stand-in whose bound IS the container model's capacity: paths that exceed it are cut
        # (assume after the MODEL assertion); the failed MODEL obligation is the statement of that bound, not an undecided run
        soft = [o for o in soft if o['class'] != 'model']
    if soft and not hard:
        raise Undecided('unwinding assertion / model bound failed (bound too small): ' + soft[0]['name'])
    floor = h.get('floor', 1)
    if len(real) < floor:
        raise Undecided('obligation floor not reached: %d < %d' % (len(real), floor))
    for need in h.get('must_have', (['postcondition'] if h.get('enforce') else ['assertion'])):
        if not any(o['class'] == need or need in (o['name'] or '') for o in real):
            raise Undecided('expected obligation class %r missing' % need)
    bad = hard
    res['failed'] = bad
    res['status'] = 'violated' if bad else 'ok'


# --------------------------------------------------------------------------------------- replay

def trace_inputs(trace):
    """state of named program variables as assigned along the counterexample (last value wins).
    Objects created by __CPROVER_is_fresh(p, n) in a requires clause appear as dynamic_object$N; the step that binds
    such an object to the wrapper parameter has lhs '(const void *)<p>_wrapper' and directly follows the object's
    element assignments - used to publish the object's bytes under the parameter's name as well."""
    vals = {}
    last_dyn = None
    dyn = {}
    for st in trace or []:
        if st.get('stepType') != 'assignment':
            continue
        lhs = st.get('lhs', '')
        v = st.get('value', {})
        md = re.fullmatch(r'(dynamic_object(?:\$\d+)?)\[(\d+)l?\]', lhs)
        if md:
            last_dyn = md.group(1)
            iv = parse_int(v.get('data'))
            if iv is not None:
                dyn.setdefault(last_dyn, {})[int(md.group(2))] = iv
        elif re.fullmatch(r'dynamic_object(?:\$\d+)?', lhs) and 'elements' in v:
            ints = [parse_int(e.get('value', {}).get('data')) for e in v['elements']]
            if ints and all(i is not None for i in ints):
                last_dyn = lhs
                dyn[lhs] = dict(enumerate(ints))
        ma = re.fullmatch(r'\(const void \*\)(\w+)_wrapper', lhs)
        if ma and last_dyn:
            # snapshot = the object's contents when it is bound to the parameter, i.e. the INPUT (pre-state)
            d = dyn.get(last_dyn, {})
            vals['__snap__' + ma.group(1)] = [d.get(i, 0) for i in range(max(d) + 1)] if d else []
            last_dyn = None
            continue
        if lhs.startswith('__CPROVER') or 'return_value' in lhs and 'nondet' not in lhs:
            continue
        data = v.get('data')
        if data is None and 'members' not in v and 'elements' not in v:
            continue
        if st.get('hidden') and not lhs.startswith('dynamic_object'):
            continue
        vals[lhs] = data if data is not None else flatten_value(v)
    return vals


def flatten_value(v):
    if 'data' in v:
        return v['data']
    if 'members' in v:
        return {m['name']: flatten_value(m['value']) for m in v['members']}
    if 'elements' in v:
        return [flatten_value(e['value']) for e in v['elements']]
    return None


def write_replay(prop, res, replays_dir):
    """replay file: failed obligations + verifier output; one input assignment per distinct counterexample trace
    (memory-safety traces first: they are the ones a sanitizer build can confirm), at most 8"""
    os.makedirs(os.path.join(replays_dir, prop), exist_ok=True)
    path = os.path.join(replays_dir, prop, '%s.%s.json' % (res['unit'], res['harness']))
    for old in glob.glob(path + '.inputs*'):
        os.remove(old)
    failed = res.get('failed', [])
    order = sorted([o for o in failed if o.get('trace')],
                   key=lambda o: {'safety': 0, 'postcondition': 1, 'assertion': 1, 'vbk_assert': 1}.get(o['class'], 2))
    cands, seen = [], set()
    for o in order:
        scal, arrs = simplify_inputs(trace_inputs(o.get('trace')))
        key = json.dumps([scal, arrs], sort_keys=True)
        if key in seen:
            continue
        seen.add(key)
        cands.append({'obligation': o['name'], 'scalars': scal, 'arrays': arrs})
        if len(cands) >= 8:
            break
    doc = {'property': prop, 'unit': res['unit'], 'harness': res['harness'], 'label': res['label'],
           'backend': res['backend'],
           'failed_obligations': [{'name': o['name'], 'description': o['desc'], 'status': o['status'],
                                   'location': o['loc']} for o in failed],
           'counterexample': trace_inputs(order[0].get('trace')) if order else {},
           'verifier_output': ['[%s] %s: %s' % (o['name'], o['desc'], o['status']) for o in res['obligations']
                               if o['class'] != 'dfcc_library'],
           'native_replay': None}
    doc['inputs'] = cands
    with open(path, 'w') as f:
        json.dump(doc, f, indent=1)
    for i, c in enumerate(cands or [{'obligation': None, 'scalars': {}, 'arrays': {}}]):
        with open(path + '.inputs' + ('' if i == 0 else '.%d' % i), 'w') as f:
            f.write('H %s\n' % res['harness'])
            for o in failed:
                f.write('O %s\n' % o['name'])
            for k, v in c['scalars'].items():
                f.write('S %s %d\n' % (k, v))
            for k, v in c['arrays'].items():
                f.write('A %s %d %s\n' % (k, len(v), ' '.join(str(x) for x in v)))
    return path, doc


def parse_int(data):
    if data is None or isinstance(data, (dict, list)):
        return None
    d = str(data)
    mc = re.search(r'/\*\s*(-?\d+)(?:u|l|ul|ll|ull)?\s*\*/', d, re.I)
    d = d.split('/*')[0].strip()
    if d.upper() == 'TRUE':
        return 1
    if d.upper() == 'FALSE':
        return 0
    m = re.fullmatch(r'(?:\([^)]*\))?\s*(-?\d+)(?:u|l|ul|ll|ull)?', d, re.I)
    if m:
        return int(m.group(1))
    if mc:
        return int(mc.group(1))
    return None


def simplify_inputs(ce):
    scal, arrs = {}, {}
    for k, v in ce.items():
        m = re.fullmatch(r'([\w$]+)\[(\d+)l?\]', k)
        iv = parse_int(v)
        if m and iv is not None:
            arrs.setdefault(m.group(1), {})[int(m.group(2))] = iv
        elif iv is not None and re.fullmatch(r'[\w$.]+', k):
            scal[k.replace('.', '_')] = iv
    out = {}
    for name, d in arrs.items():
        n = max(d) + 1
        out[name] = [d.get(i, 0) for i in range(n)]
    for k, v in ce.items():
        if k.startswith('__snap__') and v:
            out[k[len('__snap__'):]] = v
    for k in list(scal):   # dfcc renames wrapper parameters to <p>_wrapper
        if k.endswith('_wrapper'):
            scal[k[:-8]] = scal[k]
    return scal, out


def native_replay(unit, res, path, doc, scratch):
    """build units/<u>/replay.cpp with g++ against the real /repo headers+sources and run it on the counterexample"""
    rp = unit.get('replay')
    if not rp:
        return None
    rd = os.path.join(scratch, unit['unit'], 'replay')
    os.makedirs(rd, exist_ok=True)
    exe = os.path.join(rd, 'replay')
    if not os.path.exists(exe):
        srcs = [os.path.join(REPO, s) for s in rp.get('sources', [])]
        incs = ['-I', os.path.join(REPO, 'include'), '-I', os.path.join(REPO, 'src', 'pop'), '-I', os.path.join(REPO, 'test'), '-I', rd,
                '-I', os.path.join(VERIF, 'tools')]
        libs = []
        if rp.get('lib', True):
            lib, err = build_native_lib(scratch)
            if lib is None:
                doc['native_replay'] = {'built': False, 'output': err}
                json.dump(doc, open(path, 'w'), indent=1)
                return None
            libs = [lib, '-lpthread']
        cmd = ['g++', '-std=c++14', '-O1', '-g', '-fsanitize=address,undefined', '-fno-omit-frame-pointer', '-DFMT_HEADER_ONLY=1', '-DNDEBUG',
               '-DVBK_VERIF_CONTRACTS=1', '-w'] + incs + \
              [os.path.join(unit['dir'], rp['file'])] + srcs + ['-o', exe] + libs + rp.get('libs', [])
        rc, so, dt, to = run_nolimit(cmd, rd, 900)
        if rc != 0:
            doc['native_replay'] = {'built': False, 'output': so[-3000:]}
            json.dump(doc, open(path, 'w'), indent=1)
            return None
    runs, reproduced = [], False
    for inp in sorted(glob.glob(path + '.inputs*')):
        rc, so, dt, to = run_nolimit([exe, inp, res['harness']], rd, 120)
        rep = (('REPRODUCED' in so and 'NOT-REPRODUCED' not in so) or ('ERROR: AddressSanitizer' in so))
        runs.append({'inputs': os.path.basename(inp), 'exit': rc, 'output': so[-4000:], 'reproduced': rep})
        if rep:
            reproduced = True
            break
    doc['native_replay'] = {'built': True, 'reproduced': reproduced, 'runs': runs}
    json.dump(doc, open(path, 'w'), indent=1)
    return reproduced


_native_lock = threading.Lock()


def build_native_lib(scratch):
    """sanitizer build of the library from /repo's working tree (only when a counterexample has to be replayed)"""
    with _native_lock:
        nd = os.path.join(scratch, 'native')
        lib = os.path.join(nd, 'libnative.a')
        if os.path.exists(lib):
            return lib, ''
        os.makedirs(nd, exist_ok=True)
        srcs = []
        for root, _, files in os.walk(os.path.join(REPO, 'src', 'pop')):
            rel = os.path.relpath(root, os.path.join(REPO, 'src', 'pop'))
            if rel == 'c' or rel.startswith('c/'):
                continue
            for fn in files:
                if fn in ('leveldb_impl.cpp', 'rocksdb_impl.cpp'):   # optional back ends (WITH_LEVELDB / WITH_ROCKSDB are off)
                    continue
                if fn.endswith('.cpp') and fn != 'Tracy.cpp':
                    srcs.append(os.path.join(root, fn))
        flags = ['-std=c++14', '-O1', '-g', '-fsanitize=address,undefined', '-fno-omit-frame-pointer', '-DFMT_HEADER_ONLY=1',
                 '-DVBK_HAS_BUILTIN_CLZ', '-DVBK_HAS_BUILTIN_EXPECT', '-DVBK_HAS_BUILTIN_POPCOUNT', '-DVBK_HAS_RESTRICT', '-DNDEBUG',
                 '-I', os.path.join(REPO, 'include'), '-I', os.path.join(REPO, 'src', 'pop'), '-w']
        objs, errs = [], []

        def cc(src):
            o = os.path.join(nd, os.path.relpath(src, REPO).replace('/', '_') + '.o')
            rc, so, dt, to = run_nolimit(['g++'] + flags + ['-c', src, '-o', o], nd, 3600)
            return o, rc, so
        with cf.ThreadPoolExecutor(max_workers=12) as ex:
            for o, rc, so in ex.map(cc, srcs):
                if rc != 0:
                    errs.append('g++ rc=%s on %s: %s' % (rc, os.path.basename(o), so[-1500:]))
                else:
                    objs.append(o)
        if errs:
            return None, 'native build failed: ' + errs[0]
        rc, so, dt, to = run_nolimit(['ar', 'rcs', lib] + objs, nd, 300)
        return (lib, '') if rc == 0 else (None, so)


def gen_ct_params(rd):
    """ct_params.hpp is generated by cmake; reuse the one of the existing build dir if present, else defaults"""
    for cand in (os.path.join(REPO, 'include/veriblock/pop/ct_params.hpp'),
                 os.path.join(REPO, '_build/include/veriblock/pop/ct_params.hpp')):
        if os.path.exists(cand):
            return


def run_nolimit(cmd, cwd, timeout):
    t0 = time.time()
    p = subprocess.Popen(cmd, cwd=cwd, stdout=subprocess.PIPE, stderr=subprocess.STDOUT)
    try:
        so, _ = p.communicate(timeout=timeout)
        to = False
    except subprocess.TimeoutExpired:
        p.kill()
        so, _ = p.communicate()
        to = True
    return p.returncode, so.decode('utf8', 'replace'), time.time() - t0, to


# ------------------------------------------------------------------------------------------ main

def load_known():
    p = os.path.join(VERIF, 'known_findings.json')
    if not os.path.exists(p):
        return {'open': [], 'fixed': []}
    with open(p) as f:
        return json.load(f)


def known_match(known, prop, res):
    """every failed obligation of this harness must be covered by one open entry"""
    for k in known.get('open', []):
        if k['property'] != prop or k['unit'] != res['unit']:
            continue
        if not re.fullmatch(k.get('harness', '.*'), res['harness']):
            continue
        if all(re.search(k['obligation'], o['name'] or '') for o in res.get('failed', [])):
            return k
    return None


def main():
    ap = argparse.ArgumentParser()
    ap.add_argument('prop')
    ap.add_argument('--tier', default=os.environ.get('VERIF_TIER', 'quick'), choices=['quick', 'thorough'])
    ap.add_argument('--unit')
    ap.add_argument('--harness')
    ap.add_argument('--keep', action='store_true')
    ap.add_argument('--jobs', type=int, default=int(os.environ.get('VERIF_JOBS', '16')))
    ap.add_argument('--canaries', action='store_true', help='run the canary mutants of the selected units (self-test)')
    ap.add_argument('--no-evidence', action='store_true')
    ap.add_argument('--replay')
    ap.add_argument('--prepare-only', action='store_true', help='slice+compile+link only (for manual experiments); implies --keep')
    args = ap.parse_args()
    t0 = time.time()
    seed = int(os.environ.get('VERIF_SEED', '0') or 0)

    if args.replay:
        return replay_only(args)
    if args.prepare_only:
        global PREPARE_ONLY
        PREPARE_ONLY = True
        args.keep = True
        args.no_evidence = True

    units = load_units()
    props = sorted({p for u in units.values() for h in u['harnesses'] for p in h.get('props', u.get('properties', []))})
    sel_props = props if args.prop == 'all' else [args.prop]
    if args.prop != 'all' and args.prop not in props:
        print('UNDECIDED property=%s reason=no unit serves this property' % args.prop)
        return 2

    scratch = os.path.join(os.environ.get('TMPDIR', '/var/tmp'), 'verif.%d' % os.getpid())
    shutil.rmtree(scratch, ignore_errors=True)
    os.makedirs(scratch)
    rc = 2
    try:
        if args.canaries:
            rc = run_canaries(units, sel_props, args, scratch)
        else:
            rc = run_checks(units, sel_props, args, scratch, seed, t0)
    finally:
        if not args.keep:
            shutil.rmtree(scratch, ignore_errors=True)
        else:
            log('scratch kept at', scratch)
    return rc


def select_jobs(units, sel_props, args, tier):
    jobs = []
    for u in units.values():
        if args.unit and u['unit'] != args.unit:
            continue
        for h in expand_harnesses(u, tier):
            hp = h.get('props', u.get('properties', []))
            if not set(hp) & set(sel_props):
                continue
            if args.harness and not re.search(args.harness, h['name']):
                continue
            jobs.append((u, h))
    return jobs


def run_checks(units, sel_props, args, scratch, seed, t0):
    jobs = select_jobs(units, sel_props, args, args.tier)
    infos = {}
    prep_fail = {}
    for uname in sorted({u['unit'] for u, _ in jobs}):
        try:
            infos[uname] = prepare_unit(units[uname], scratch)
        except Undecided as e:
            prep_fail[uname] = str(e)
    results = []
    with cf.ThreadPoolExecutor(max_workers=args.jobs) as ex:
        futs = []
        # longest first
        for u, h in sorted(jobs, key=lambda j: -j[1].get('timeout', 300)):
            if u['unit'] in prep_fail:
                results.append({'unit': u['unit'], 'harness': h['name'], 'status': 'undecided', 'reason': prep_fail[u['unit']],
                                'props': h.get('props', u.get('properties', [])), 'obligations': [], 'label': h.get('label'),
                                'solver_s': 0, 'backend': None, 'cmd': '', 'functions': h.get('functions', [])})
                continue
            futs.append(ex.submit(run_harness, u, h, scratch))
        for f in cf.as_completed(futs):
            r = f.result()
            results.append(r)
            log('[%s] %s/%s  %s  (%d obligations, %.1fs, %s)%s' % (
                r['status'].upper(), r['unit'], r['harness'], r['label'], len(r['obligations']), r['solver_s'], r['backend'],
                ('  ' + r['reason'][:600]) if r['reason'] else ''))
    known = load_known()
    exit_code = 0
    replays_dir = os.path.join(VERIF, 'replays')
    for prop in sel_props:
        pres = [r for r in results if prop in r['props']]
        if not pres:
            continue
        viol, kf, und = [], [], []
        for r in pres:
            if r['status'] == 'undecided':
                key = r['reason'][:200]
                if key not in [x['reason'][:200] for x in und]:
                    print('UNDECIDED property=%s unit=%s harness=%s reason=%s' % (prop, r['unit'], r['harness'],
                                                                             r['reason'].replace('\n', ' ')[:500]))
                else:
                    print('UNDECIDED property=%s unit=%s harness=%s reason=(same as above)' % (prop, r['unit'], r['harness']))
                und.append(r)
            elif r['status'] == 'violated':
                k = known_match(known, prop, r)
                path, doc = write_replay(prop, r, replays_dir)
                if k:
                    kf.append((r, k))
                    print('KNOWN-FINDING: property=%s %s [unit=%s harness=%s obligation=%s]' % (
                        prop, k['what'], r['unit'], r['harness'], r['failed'][0]['name']))
                    continue
                rep = native_replay(units[r['unit']], r, path, doc, scratch)
                viol.append((r, path, rep))
                for o in r['failed']:
                    log('   failed obligation [%s] %s  (%s:%s)' % (o['name'], o['desc'], o['loc'].get('file'), o['loc'].get('line')))
                print('VIOLATION property=%s replay=%s%s' % (prop, path, '' if rep else ' no-failing-input-found'))
        if viol:
            exit_code = max(exit_code, 1) if exit_code != 1 else 1
            exit_code = 1
        elif und and exit_code == 0:
            exit_code = 2
        if not args.no_evidence and not args.unit and not args.harness:
            write_evidence(prop, pres, infos, units, args.tier, seed, time.time() - t0, len(viol), kf)
    return exit_code


def write_evidence(prop, pres, infos, units, tier, seed, wall, nviol, kf):
    proved = [r for r in pres if r['label'] in PROVED_LABELS]
    bounded = [r for r in pres if r['label'] not in PROVED_LABELS]

    def count(rs):
        tot = dis = 0
        byc = {}
        for r in rs:
            for o in r['obligations']:
                if o['class'] == 'reach':
                    continue
                tot += 1
                ok = o['status'] == 'SUCCESS'
                dis += ok
                c = byc.setdefault(o['class'], [0, 0])
                c[0] += 1
                c[1] += ok
        return tot, dis, {k: {'obligations': v[0], 'discharged': v[1]} for k, v in sorted(byc.items())}
    pt, pd, pby = count(proved)
    bt, bd, bby = count(bounded)
    unames = sorted({r['unit'] for r in pres})
    trusted, assumptions, fns, fired, dropped = [], [], [], [], []
    for un in unames:
        u = units[un]
        trusted += ['%s: %s' % (un, t) for t in u.get('trusted_base', [])]
        assumptions += ['%s: %s' % (un, t) for t in u.get('assumptions', [])]
        inf = infos.get(un, {})
        for f in inf.get('functions', []):
            fns.append(dict(f, unit=un, sha256=inf['sources'].get(f['file'])))
        fired += [dict(f, unit=un) for f in inf.get('fired', [])]
        dropped += ['%s: %s' % (un, t) for t in u.get('extraction_drops', [])]
    trusted += ['cbmc 6.11.0 C++ front end, goto-instrument --dfcc contract instrumentation, SAT/SMT back ends']
    samples = []
    for r in pres:
        for o in r['obligations']:
            if o['class'] in ('postcondition', 'vbk_assert', 'loop_invariant', 'frame', 'assertion') and len(samples) < 12:
                samples.append('%s/%s [%s] %s: %s' % (r['unit'], r['harness'], o['name'], o['desc'], o['status']))
                break
    per_h = [{'unit': r['unit'], 'harness': r['harness'], 'label': r['label'], 'bound': r.get('bound'), 'status': r['status'],
              'reason': r.get('reason', ''), 'backend': r['backend'], 'solver_s': round(r['solver_s'], 2),
              'obligations': len([o for o in r['obligations'] if o['class'] != 'reach']),
              'discharged': len([o for o in r['obligations'] if o['class'] != 'reach' and o['status'] == 'SUCCESS']),
              'functions': r.get('functions', []), 'checker_cmd': r['cmd'], 'set_aside': r.get('set_aside', [])} for r in sorted(pres, key=lambda r: (r['unit'], r['harness']))]
    level = 'proof' if proved else 'other'
    cov = {
        'obligations': pt if proved else bt, 'discharged': pd if proved else bd,
        'checker_cmd': 'goto-cc (C++11, -nostdinc, slices of /repo) + goto-cc (C contracts) | goto-instrument --dfcc <h> '
                       '--enforce-contract <w>/<w>_c [--apply-loop-contracts] | cbmc ' + ' '.join(DEFAULT_FLAGS) + ' (per harness: see harnesses[].checker_cmd)',
        'trusted_base': trusted,
        'explanation': ('proof-level counts (obligations/discharged/by_class) cover only harnesses labelled proved-modular or '
                        'proved-complete-unwinding; harnesses labelled bounded are listed under bounded_* with their bound and are not '
                        'counted as proved.' if proved else
                        'only bounded stand-ins exist for this property; nothing is counted as proved.'),
        'by_class': pby if proved else bby,
        'bounded_obligations': bt if proved else 0, 'bounded_discharged': bd if proved else 0, 'bounded_by_class': bby if proved else {},
        'harnesses': per_h,
        'functions_under_contract': fns,
        'rewrite_rules_fired': fired,
        'extraction_drops': dropped,
        'solver_s_total': round(sum(r['solver_s'] for r in pres), 2),
        'undecided': [r['harness'] for r in pres if r['status'] == 'undecided'],
        'known_findings_reported': [k['what'] for _, k in kf],
        'samples': samples or ['(no obligation produced)'],
    }
    ev = {'property_id': prop, 'tier': tier, 'seed': seed, 'level': level, 'coverage': cov,
          'assumptions': assumptions + ['machine arithmetic is bit-precise (no mathematical-integer idealisation)',
                                        'termination only where a decreases clause / complete unwinding is listed'],
          'wall_s': round(wall, 2), 'violations': nviol}
    os.makedirs(os.path.join(VERIF, 'evidence'), exist_ok=True)
    with open(os.path.join(VERIF, 'evidence', prop + '.json'), 'w') as f:
        json.dump(ev, f, indent=1)


def run_canaries(units, sel_props, args, scratch):
    """self-test: each canary mutates a slice / shadow file in scratch (never /repo) and must make a named obligation fail"""
    bad = 0
    total = 0
    for u in units.values():
        if args.unit and u['unit'] != args.unit:
            continue
        for i, c in enumerate(u.get('canaries', [])):
            if not set(c.get('props', u.get('properties', []))) & set(sel_props):
                continue
            total += 1
            sc = os.path.join(scratch, 'canary_%s_%d' % (u['unit'], i))
            os.makedirs(sc)
            _compiled.clear()
            try:
                prepare_unit(u, sc, mutate=c)
                hs = [h for h in expand_harnesses(u, 'thorough' if c.get('tier') == 'thorough' else 'quick')
                      if re.fullmatch(c['harness'], h['name'])]
                if not hs:
                    raise Undecided('no harness matches %s' % c['harness'])
                r = run_harness(u, hs[0], sc)
                hit = r['status'] == 'violated' and any(re.search(c['expect'], o['name'] or '') or
                                                        re.search(c['expect'], o['desc'] or '') for o in r['failed'])
                print('CANARY %s/%s: %s (%s)' % (u['unit'], c['name'], 'caught' if hit else 'MISSED', r['status'] + ' ' + r.get('reason', '')[:300]))
                if not hit:
                    bad += 1
            except Undecided as e:
                print('CANARY %s/%s: UNDECIDED %s' % (u['unit'], c['name'], e))
                bad += 1
            shutil.rmtree(sc, ignore_errors=True)
    print('canaries: %d/%d caught' % (total - bad, total))
    return 0 if bad == 0 else 2


def replay_only(args):
    args.replay = os.path.abspath(args.replay)   # the native replay runs in its own scratch directory
    with open(args.replay) as f:
        doc = json.load(f)
    units = load_units()
    u = units[doc['unit']]
    scratch = os.path.join(os.environ.get('TMPDIR', '/var/tmp'), 'verif.%d' % os.getpid())
    os.makedirs(scratch, exist_ok=True)
    try:
        res = {'unit': doc['unit'], 'harness': doc['harness']}
        rep = native_replay(u, res, args.replay, doc, scratch)
        print(json.dumps(doc.get('native_replay'), indent=1))
        if rep:
            print('VIOLATION property=%s replay=%s' % (doc['property'], args.replay))
            return 1
        return 0
    finally:
        shutil.rmtree(scratch, ignore_errors=True)


if __name__ == '__main__':
    sys.exit(main())
