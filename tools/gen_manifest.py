#!/usr/bin/env python3
"""Regenerates /verif/MANIFEST.json from tools/manifest_table.json (claimed checks + not_applicable reasons).
A property is claimed iff at least one unit harness serves it and the table has a 'claims' entry for it."""
import glob
import json
import os

HERE = os.path.dirname(os.path.abspath(__file__))
VERIF = os.path.dirname(HERE)

table = json.load(open(os.path.join(HERE, 'manifest_table.json')))
served = set()
proved = set()   # properties with at least one quick-tier harness labelled proved-* (the evidence level follows the same rule)
for uj in glob.glob(os.path.join(VERIF, 'units', '*', 'unit.json')):
    u = json.load(open(uj))
    for h in u['harnesses']:
        ps = set(h.get('props', u.get('properties', [])))
        served |= ps
        if h.get('label', 'proved-modular') in ('proved-modular', 'proved-complete-unwinding') and h.get('tier', 'quick') != 'thorough':
            proved |= ps

props = [json.loads(l)['id'] for l in open(os.path.join(VERIF, 'properties.jsonl'))]
checks, na = [], []
for pid in props:
    c = table['claims'].get(pid)
    if c and pid in served:
        checks.append({
            'property_id': pid,
            'quick_cmd': './check %s --tier quick' % pid,
            'thorough_cmd': './check %s --tier thorough' % pid,
            'evidence_file': 'evidence/%s.json' % pid,
            'replay_cmd_template': './check %s --replay {path}' % pid,
            'engine': 'cbmc-contracts',
            'level_claimed': {'category': ('proof' if pid in proved else 'other'), 'text': c['text'], 'design_ref': 'DESIGN.md section 5, ' + pid},
            'level_note': c['note'],
            'technique': c.get('technique', 'contract-based deductive verification: CBMC code contracts (goto-instrument --dfcc) enforced on functions sliced from /repo'),
        })
    else:
        reason = table['not_applicable'].get(pid) or 'no contract within CBMC reach decides this property (see DESIGN.md section 5)'
        na.append({'property_id': pid, 'reason': reason})

m = {
    'version': 1,
    'setup_cmd': 'sh -c "command -v cbmc goto-cc goto-instrument g++ python3 >/dev/null && python3 tools/driver.py --help >/dev/null"',
    'hooks': {
        'guard': 'VBK_VERIF_CONTRACTS',
        'enable': 'no source hook exists: the checks slice function definitions out of the unmodified /repo sources on every run and compile them '
                  'with goto-cc -DVBK_VERIF_CONTRACTS=1 against /verif/stubs; the define is seen only by the verification build',
        'baseline_off_cmd': 'cmake --build /repo/_build -j16 && ctest --test-dir /repo/_build -j8 --timeout 900',
        'source_commits': table.get('hook_commits', []),
        'add_only': True,
    },
    'engines': [{
        'name': 'cbmc-contracts', 'path': 'tools/driver.py',
        'serves_properties': [c['property_id'] for c in checks],
        'kind_free_text': 'slices real function definitions from /repo (tools/extract.py, must-fire rewrite rules), compiles them with goto-cc in C++ mode '
                          'behind extern "C" wrappers, attaches C contracts (requires/ensures/assigns, loop contracts via --loop-contracts-file), '
                          'enforces them with goto-instrument --dfcc and discharges every obligation with cbmc 6.11 (SAT/SMT); counterexamples are '
                          'replayed natively against the real code',
    }],
    'checks': checks,
    'not_applicable': na,
    'notes': table.get('notes', ''),
}
json.dump(m, open(os.path.join(VERIF, 'MANIFEST.json'), 'w'), indent=1)
print('claimed:', [c['property_id'] for c in checks])
print('not_applicable:', [n['property_id'] for n in na])
