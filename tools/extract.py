"""Mechanical extraction of function definitions from /repo sources.

A slice is located by a start regex anchored on the signature and ends at the brace that
closes the first '{' that follows the match (string/char literals and comments are skipped
while matching braces).  Rewrites are (regex, replacement, expected_count) triples; a rule
that does not fire exactly expected_count times raises ExtractError (-> exit 2, UNDECIDED).
"""
import hashlib
import re


class ExtractError(Exception):
    pass


def _skip_noncode(s, i):
    """if s[i:] starts a comment / string / char literal return index after it, else i"""
    if s.startswith('//', i):
        j = s.find('\n', i)
        return len(s) if j < 0 else j
    if s.startswith('/*', i):
        j = s.find('*/', i + 2)
        if j < 0:
            raise ExtractError('unterminated comment')
        return j + 2
    if s[i] == '"':
        j = i + 1
        while j < len(s):
            if s[j] == '\\':
                j += 2
                continue
            if s[j] == '"':
                return j + 1
            j += 1
        raise ExtractError('unterminated string')
    if s[i] == "'":
        # char literal (not digit separator: C++11 has none)
        j = i + 1
        while j < len(s):
            if s[j] == '\\':
                j += 2
                continue
            if s[j] == "'":
                return j + 1
            j += 1
        raise ExtractError('unterminated char literal')
    return i


def match_brace(s, open_idx):
    assert s[open_idx] == '{'
    depth = 0
    i = open_idx
    while i < len(s):
        j = _skip_noncode(s, i)
        if j != i:
            i = j
            continue
        c = s[i]
        if c == '{':
            depth += 1
        elif c == '}':
            depth -= 1
            if depth == 0:
                return i
        i += 1
    raise ExtractError('unbalanced braces')


def find_body_open(s, start):
    """first '{' at parenthesis depth 0 after start (skips ctor-init parens, default args)"""
    depth = 0
    i = start
    while i < len(s):
        j = _skip_noncode(s, i)
        if j != i:
            i = j
            continue
        c = s[i]
        if c == '(':
            depth += 1
        elif c == ')':
            depth -= 1
        elif c == '{' and depth == 0:
            return i
        elif c == ';' and depth == 0:
            raise ExtractError('declaration, not a definition')
        i += 1
    raise ExtractError('no body found')


def slice_definition(text, start_regex, occurrence=0, what=''):
    ms = list(re.finditer(start_regex, text, re.M))
    if len(ms) <= occurrence:
        raise ExtractError('start regex %r matched %d times (need occurrence %d) %s'
                           % (start_regex, len(ms), occurrence, what))
    m = ms[occurrence]
    ob = find_body_open(text, m.start())
    cb = match_brace(text, ob)
    line0 = text.count('\n', 0, m.start()) + 1
    line1 = text.count('\n', 0, cb) + 1
    return text[m.start():cb + 1], line0, line1


def slice_lines(text, first_regex, last_regex, what=''):
    """statement-level slice: from the line matching first_regex through the line matching last_regex"""
    m0 = re.search(first_regex, text, re.M)
    if not m0:
        raise ExtractError('first regex %r not found %s' % (first_regex, what))
    m1 = m0 if last_regex is None else re.compile(last_regex, re.M).search(text, m0.end())
    if not m1:
        raise ExtractError('last regex %r not found %s' % (last_regex, what))
    a = text.rfind('\n', 0, m0.start()) + 1
    b = text.find('\n', m1.end())
    b = len(text) if b < 0 else b
    return text[a:b], text.count('\n', 0, a) + 1, text.count('\n', 0, b) + 1


def apply_rewrites(text, rules, what=''):
    fired = []
    for rule in rules:
        rx, rep, cnt = rule[0], rule[1], rule[2]
        new, n = re.subn(rx, rep, text, flags=re.M | re.S if (len(rule) > 3 and rule[3] == 's') else re.M)
        if cnt == '+':
            ok = n >= 1
        elif cnt == '*':
            ok = True
        else:
            ok = (n == cnt)
        if not ok:
            raise ExtractError('rewrite rule %r fired %d times, expected %s %s' % (rx, n, cnt, what))
        fired.append({'rule': rx, 'replacement': rep, 'fired': n})
        text = new
    return text, fired


def sha256_file(path):
    h = hashlib.sha256()
    with open(path, 'rb') as f:
        h.update(f.read())
    return h.hexdigest()


TEMPLATE_HEAD = r'template\s*<\s*typename T,\s*typename = typename std::enable_if<[^;{}]*?>::type>\s*'


def expand_member_template(text, name, types, what=''):
    """CBMC has no member function templates: `template <typename T, typename = enable_if..> R name(..T..) {..}`
    is instantiated textually, once per type in `types` (an overload set on the T parameter).
    types == [] deletes the member template (it is then not under contract)."""
    rx = re.compile(TEMPLATE_HEAD + r'[\w:<> ]*?\b' + re.escape(name) + r'\(')
    ms = list(rx.finditer(text))
    if len(ms) != 1:
        raise ExtractError('member template %s: %d matches %s' % (name, len(ms), what))
    m = ms[0]
    ob = find_body_open(text, m.start() + len(re.match(TEMPLATE_HEAD, text[m.start():]).group(0)))
    cb = match_brace(text, ob)
    head_len = len(re.match(TEMPLATE_HEAD, text[m.start():]).group(0))
    body = text[m.start() + head_len:cb + 1]
    out = []
    for ty in types:
        out.append('/* instantiated textually for T = %s */ ' % ty + re.sub(r'\bT\b', ty, body))
    return text[:m.start()] + '\n  '.join(out) + text[cb + 1:]
