#!/bin/sh
# usage: tools/seedtest.sh <seed-id> <check args...>   applies seeded/<id>/patch.diff to /repo, runs ./check <args>, always reverts.
id=$1; shift
cd "$(dirname "$0")/.." || exit 2
git -C /repo diff --quiet || { echo "seedtest: /repo has uncommitted changes, refusing"; exit 2; }
git -C /repo apply "$PWD/seeded/$id/patch.diff" || exit 2
./check "$@" --no-evidence; rc=$?
git -C /repo checkout -- .
echo "SEEDTEST $id: exit=$rc"
exit $rc
