// reader for <replay>.inputs written by tools/driver.py:  "H harness", "O obligation", "S name value", "A name n v0 v1 ..."
#pragma once
#include <fstream>
#include <map>
#include <sstream>
#include <string>
#include <vector>
struct ReplayInputs {
  std::string harness;
  std::vector<std::string> obligations;
  std::map<std::string, long long> s;
  std::map<std::string, std::vector<long long>> a;
  bool load(const char* path) {
    std::ifstream f(path);
    if (!f) return false;
    std::string line;
    while (std::getline(f, line)) {
      std::istringstream is(line);
      char k;
      is >> k;
      if (k == 'H') is >> harness;
      else if (k == 'O') { std::string o; is >> o; obligations.push_back(o); }
      else if (k == 'S') { std::string n; long long v; is >> n >> v; s[n] = v; }
      else if (k == 'A') { std::string n; size_t c; is >> n >> c; std::vector<long long> v(c); for (auto& x : v) is >> x; a[n] = v; }
    }
    return true;
  }
  long long S(const std::string& n, long long d = 0) const { auto i = s.find(n); return i == s.end() ? d : i->second; }
  std::vector<uint8_t> bytes(const std::string& n) const {
    std::vector<uint8_t> r; auto i = a.find(n); if (i != a.end()) for (auto x : i->second) r.push_back((uint8_t)x); return r;
  }
};
